"""Work-unit sharding, watchdog, violation collection, evidence writing.

A property module provides
    PROPERTY_ID, TITLE
    units(tier, seed) -> list of picklable unit descriptors (dicts); each unit is a
                         *complete* sub-space (never a sample)
    run_unit(unit)    -> UnitResult
    replay(case)      -> list of Violation (runs a single recorded case)
    describe()        -> dict with 'rule', 'assumptions', 'technique' ...
"""

from __future__ import annotations

import hashlib
import json
import multiprocessing as mp
import os
import signal
import sys
import time
import traceback

VERIF = os.path.dirname(os.path.dirname(os.path.abspath(__file__)))
NPROC = int(os.environ.get("PMC_PROCS", "16"))


class Watchdog(BaseException):
    """Raised by SIGALRM inside a case that runs too long (BaseException on purpose:
    library code catching Exception must not swallow it)."""


def _on_alarm(signum, frame):
    raise Watchdog()


class watchdog:
    def __init__(self, seconds: float):
        self.seconds = seconds

    def __enter__(self):
        signal.signal(signal.SIGALRM, _on_alarm)
        signal.setitimer(signal.ITIMER_REAL, self.seconds)
        return self

    def __exit__(self, *a):
        signal.setitimer(signal.ITIMER_REAL, 0)
        return False


_armed = False


def arm():
    """Install the SIGALRM handler once per process."""
    global _armed
    if not _armed:
        signal.signal(signal.SIGALRM, _on_alarm)
        _armed = True


def kick(budget: float = 5.0):
    """(Re)start the per-case watchdog; call before every case."""
    signal.setitimer(signal.ITIMER_REAL, budget)


def disarm():
    signal.setitimer(signal.ITIMER_REAL, 0)


def guarded(fn, *args, budget=5.0):
    """Run fn under the watchdog. Returns ('ok', value) | ('exc', exception) | ('hang', None)."""
    try:
        with watchdog(budget):
            return ("ok", fn(*args))
    except Watchdog:
        return ("hang", None)
    except RecursionError as e:
        return ("exc", e)
    except Exception as e:  # noqa: BLE001
        return ("exc", e)


class Violation:
    __slots__ = ("clause", "fingerprint", "case", "observed", "expected", "size")

    def __init__(self, clause, case, observed, expected=None, fingerprint=None, size=0):
        self.clause = clause
        self.case = case
        self.observed = observed
        self.expected = expected
        self.fingerprint = fingerprint or clause
        self.size = size

    def to_dict(self):
        return {
            "clause": self.clause,
            "fingerprint": self.fingerprint,
            "case": self.case,
            "observed": self.observed,
            "expected": self.expected,
        }


class UnitResult:
    """Counters produced by one unit (merged by summation)."""

    def __init__(self, prop_id: str = "?"):
        self.states = 0            # distinct inputs / canonical states visited in this unit
        self.transitions = 0       # real-API executions checked
        self.validated = 0         # reference predictions compared with the real result
        self.evaluations = 0
        self.nontrivial = 0
        self.clauses: dict = {}
        self.outcomes: dict = {}
        self.violations: list = []  # Violation
        self.samples: list = []
        self.scopes: list = []
        self.caps: list = []
        self.state_hashes = None   # optional set of ints for cross-unit de-duplication
        self.notes: dict = {}
        self.known: dict = {}
        self.prop_id = prop_id

    def clause(self, name, n=1):
        self.clauses[name] = self.clauses.get(name, 0) + n

    def outcome(self, name, n=1):
        self.outcomes[name] = self.outcomes.get(name, 0) + n

    def violate(self, clause, case, observed, expected=None, fingerprint=None, size=0, cap=40):
        fp = fingerprint or clause
        from . import known

        kf = known.match(self.prop_id, clause, case, observed)
        if kf is not None:
            self.known[kf] = self.known.get(kf, 0) + 1
            self.outcome("known:" + kf)
            return
        self.outcome("violation:" + fp)
        # keep the smallest case per fingerprint, bounded memory
        for v in self.violations:
            if v.fingerprint == fp:
                if size < v.size:
                    v.case, v.observed, v.expected, v.size = case, observed, expected, size
                return
        if len(self.violations) < cap:
            self.violations.append(Violation(clause, case, observed, expected, fp, size))

    def sample(self, s, limit=3):
        if len(self.samples) < limit:
            self.samples.append(s)


def h64(s: str) -> int:
    return int.from_bytes(hashlib.blake2b(s.encode("utf-8", "surrogatepass"), digest_size=8).digest(), "big")


def _worker(args):
    modname, unit = args
    import importlib

    sys.setrecursionlimit(3000)
    mod = importlib.import_module(modname)
    t0 = time.time()
    try:
        res = mod.run_unit(unit)
    except Watchdog:
        res = UnitResult(getattr(mod, "PROPERTY_ID", "?"))
        res.violate("harness.hang", {"unit": unit}, "unit-level watchdog")
    except Exception as e:  # noqa: BLE001  harness bug: never silently pass
        res = UnitResult(getattr(mod, "PROPERTY_ID", "?"))
        res.violate("harness.error", {"unit": unit}, "".join(traceback.format_exception(e))[-3000:])
    res.notes["wall"] = time.time() - t0
    res.notes["unit"] = unit.get("name", "?")
    return res


def run_property(mod, tier: str, seed: int, procs: int | None = None):
    """Run all units of a property module; returns merged result dict."""
    units = mod.units(tier, seed)
    procs = procs or NPROC
    t0 = time.time()
    results = []
    if procs <= 1 or len(units) <= 1:
        for u in units:
            results.append(_worker((mod.__name__, u)))
    else:
        ctx = mp.get_context("fork")
        with ctx.Pool(min(procs, len(units)), maxtasksperchild=None) as pool:
            results = pool.map(_worker, [(mod.__name__, u) for u in units], chunksize=1)
    wall = time.time() - t0
    return merge(units, results, wall)


def merge(units, results, wall):
    m = UnitResult()
    hashes = None
    unit_walls = []
    for u, r in zip(units, results):
        m.states += r.states
        m.transitions += r.transitions
        m.validated += r.validated
        m.evaluations += r.evaluations
        m.nontrivial += r.nontrivial
        for k, v in r.clauses.items():
            m.clauses[k] = m.clauses.get(k, 0) + v
        for k, v in r.outcomes.items():
            m.outcomes[k] = m.outcomes.get(k, 0) + v
        for v in r.violations:
            dup = False
            for w in m.violations:
                if w.fingerprint == v.fingerprint:
                    dup = True
                    if v.size < w.size:
                        w.case, w.observed, w.expected, w.size = v.case, v.observed, v.expected, v.size
                    break
            if not dup:
                m.violations.append(v)
        for k, v in r.known.items():
            m.known[k] = m.known.get(k, 0) + v
        for s in r.samples:
            if len(m.samples) < 6:
                m.samples.append(s)
        m.scopes.extend(r.scopes)
        m.caps.extend(r.caps)
        if r.state_hashes is not None:
            hashes = (hashes or set()) | r.state_hashes
        unit_walls.append((round(r.notes.get("wall", 0), 2), r.notes.get("unit")))
    if hashes is not None:
        m.states = len(hashes)
    m.notes["wall"] = wall
    m.notes["units"] = len(units)
    m.notes["slowest_units"] = sorted(unit_walls, reverse=True)[:5]
    return m


def write_replay(prop_id: str, v: Violation, extra: dict) -> str:
    d = os.path.join(os.environ.get("PMC_REPLAY_DIR") or os.path.join(VERIF, "replays"), prop_id)
    os.makedirs(d, exist_ok=True)
    body = {"property": prop_id, **v.to_dict(), **extra}
    s = json.dumps(body, sort_keys=True, ensure_ascii=True, default=repr)
    name = hashlib.sha1((v.fingerprint + "|" + json.dumps(v.case, sort_keys=True, default=repr)).encode()).hexdigest()[:12]
    path = os.path.join(d, name + ".json")
    with open(path, "w") as f:
        f.write(s)
    return path


def write_evidence(prop_id, tier, seed, merged: UnitResult, describe: dict, n_violations: int,
                   known_seen: list):
    path = os.path.join(os.environ.get("PMC_EVIDENCE_DIR") or os.path.join(VERIF, "evidence"), prop_id + ".json")
    os.makedirs(os.path.dirname(path), exist_ok=True)
    cov = {
        "states": int(merged.states),
        "transitions": int(merged.transitions),
        "traces_validated_against_impl": int(merged.validated),
        "samples": merged.samples or [{"note": "no sample recorded"}],
        "evaluations": int(merged.evaluations or merged.transitions),
        "distinct_nontrivial": int(merged.nontrivial),
        "rule": describe.get("rule", ""),
        "exhaustive": not merged.caps,
        "caps_hit": merged.caps,
        "scopes": merged.scopes,
        "clauses": dict(sorted(merged.clauses.items())),
        "distinct_outcomes": dict(sorted(merged.outcomes.items())),
        "known_findings_seen": known_seen,
        "units": merged.notes.get("units"),
        "slowest_units": merged.notes.get("slowest_units"),
        "explanation": describe.get("explanation", ""),
    }
    ev = {
        "property_id": prop_id,
        "tier": tier,
        "seed": int(seed),
        "level": "model_checking",
        "coverage": cov,
        "assumptions": describe.get("assumptions", []),
        "wall_s": round(merged.notes.get("wall", 0.0), 2),
        "violations": int(n_violations),
    }
    with open(path, "w") as f:
        json.dump(ev, f, indent=1, sort_keys=True, default=repr)
    return path
