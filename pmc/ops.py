"""The operation menu (transition relation of the E2 explorer) and its execution on a real Transform.

An operation is a plain dict; `enumerate_ops` lists the complete finite menu for a document of size n and the
given pools; `apply_op` executes one entry on a Transform through the public API.
"""

from __future__ import annotations

from . import adapters
from .adapters import pm_transform
from .ref import tokens as tk

structure = pm_transform.structure
NodeTypeWithAttrs = structure.NodeTypeWithAttrs


class NotEnabled(Exception):
    """The menu entry does not denote an operation on this document (e.g. no wrapping exists)."""


def enumerate_ops(model, n, pools, groups=("replace", "lists", "marks", "structure", "markup")):
    """pools: dict(slices=[slice json], nodes=[node json], marks=[mark json], types=[type names],
    textblocks=[(type, attrs)], markup=[(type, attrs)], attrs=[(name, value)])"""
    R = [(a, b) for a in range(n + 1) for b in range(a, n + 1)]
    if "replace" in groups:
        for a, b in R:
            yield {"op": "delete", "from": a, "to": b}
            yield {"op": "delete_range", "from": a, "to": b}
            for sl in pools.get("slices", []):
                yield {"op": "replace", "from": a, "to": b, "slice": sl}
                yield {"op": "replace_range", "from": a, "to": b, "slice": sl}
            for nd in pools.get("nodes", []):
                yield {"op": "replace_with", "from": a, "to": b, "node": nd}
                yield {"op": "replace_range_with", "from": a, "to": b, "node": nd}
        for a in range(n + 1):
            for nd in pools.get("nodes", []):
                yield {"op": "insert", "pos": a, "node": nd}
    if "steps" in groups:
        # the primitive ReplaceStep applied as it is (no fitting): what a peer sends
        for a, b in R:
            for sl in pools.get("slices", []):
                yield {"op": "replace_step", "from": a, "to": b, "slice": sl}
    if "lists" in groups:
        # content given as a LIST of nodes (Fragment.from_ of a list: adjacent same-markup text nodes are fused)
        for a in range(n + 1):
            for nl in pools.get("node_lists", []):
                yield {"op": "insert", "pos": a, "nodes": nl}
                if a + 1 <= n:
                    yield {"op": "replace_with", "from": a, "to": a + 1, "nodes": nl}
    if "marks" in groups:
        for a, b in R:
            for m in pools.get("marks", []):
                yield {"op": "add_mark", "from": a, "to": b, "mark": m}
                yield {"op": "remove_mark", "from": a, "to": b, "mark": m}
            for mt in model.mark_names[:3]:
                yield {"op": "remove_mark", "from": a, "to": b, "mark_type": mt}
            yield {"op": "remove_mark", "from": a, "to": b}
        for a in range(n + 1):
            for m in pools.get("marks", [])[:3]:
                yield {"op": "add_node_mark", "pos": a, "mark": m}
                yield {"op": "remove_node_mark", "pos": a, "mark": m}
            for mt in model.mark_names[:2]:
                yield {"op": "remove_node_mark", "pos": a, "mark_type": mt}
    if "structure" in groups:
        for a in range(n + 1):
            for depth in (1, 2, 3):
                yield {"op": "split", "pos": a, "depth": depth}
                for t, at in pools.get("textblocks", [])[:2]:
                    yield {"op": "split", "pos": a, "depth": depth, "type_after": t, "attrs_after": at}
            for depth in (1, 2):
                yield {"op": "join", "pos": a, "depth": depth}
        for a, b in R:
            yield {"op": "lift", "from": a, "to": b}
            for t in pools.get("types", []):
                yield {"op": "wrap", "from": a, "to": b, "type": t}
    if "markup" in groups:
        for a, b in R:
            for t, at in pools.get("textblocks", []):
                yield {"op": "set_block_type", "from": a, "to": b, "type": t, "attrs": at}
        for a in range(n + 1):
            for t, at in pools.get("markup", []):
                yield {"op": "set_node_markup", "pos": a, "type": t, "attrs": at}
            yield {"op": "set_node_markup", "pos": a, "type": None, "attrs": None, "marks": (pools.get("marks") or [None])[:1]}
            for name, v in pools.get("attrs", []):
                yield {"op": "set_node_attribute", "pos": a, "attr": name, "value": v}
        for name, v in pools.get("doc_attrs", []):
            yield {"op": "set_doc_attribute", "attr": name, "value": v}


def default_pools(c, sc, slices, max_slices=None, max_nodes=6, offset=0):
    """Pools derived from the scope: slices (given), closed nodes, marks, wrapper types, textblock types."""
    model = c.model
    from .universe import gen_steps

    nodes = []
    seen = set()
    for sl in slices:
        if sl["openStart"] == 0 and sl["openEnd"] == 0 and len(sl["content"]) == 1:
            k = tk.jkey(sl["content"][0])
            if k not in seen:
                seen.add(k)
                nodes.append(sl["content"][0])
    nodes.sort(key=lambda x: (tk.node_size(model, x), tk.jkey(x)))
    # one node per type first
    picked, types_seen = [], set()
    for x in nodes:
        if x["type"] not in types_seen:
            types_seen.add(x["type"])
            picked.append(x)
    # ... and the smallest node of each type that carries text (so that misplaced insertions are visible)
    with_text = set()
    for x in nodes:
        if x["type"] not in with_text and '"text"' in tk.jkey(x) and x not in picked and len(picked) < max_nodes + 3:
            with_text.add(x["type"])
            picked.append(x)
    for x in nodes:
        if len(picked) >= max_nodes:
            break
        if x not in picked:
            picked.append(x)
    types = [t for t in sc["types"] if t != model.top and not model.types[t].is_text]
    textblocks = []
    for t in types:
        tm = model.types[t]
        if tm.is_textblock:
            variants = sc.get("attrs", {}).get(t) or [None]
            for a in variants[:2]:
                textblocks.append((t, a))
    markup = []
    for t in types:
        tm = model.types[t]
        if not tm.required_attrs:
            variants = sc.get("attrs", {}).get(t) or [None]
            markup.append((t, variants[-1]))
    attrs = []
    for t in types:
        for a in model.types[t].attrs:
            for v in (1, 2):
                if (a, v) not in attrs:
                    attrs.append((a, v))
    doc_attrs = [(a, v) for a in model.types[model.top].attrs for v in (1, None)]
    if max_slices is None or len(slices) <= max_slices:
        sl = slices
    else:
        # a stride through the (size-ordered) pool keeps every size / open depth represented;
        # `offset` (from VERIF_SEED) rotates which complete sub-pool is used
        stride = -(-len(slices) // max_slices)
        sl = [slices[0], *slices[1 + (offset % stride)::stride]]
    node_lists = []
    texts = [x for x in nodes if x["type"] == "text"]
    if texts:
        t0 = texts[0]
        node_lists.append([{**t0, "text": "X"}, {**t0, "text": "Y"}])
        node_lists.append([{**t0, "text": "X"}, {**t0, "text": "Y"}, {**t0, "text": "Z"}])
    others = [x for x in picked if x["type"] != "text"]
    if others:
        node_lists.append([others[0], others[0]])
    return {
        "slices": sl,
        "node_lists": node_lists,
        "nodes": picked[:max_nodes + 3],
        "marks": gen_steps.schema_marks(model, 4),
        "types": types,
        "textblocks": textblocks,
        "markup": markup,
        "attrs": attrs[:4],
        "doc_attrs": doc_attrs,
    }


def apply_op(c, tr, op):
    """Execute one menu entry on the Transform `tr` (raises NotEnabled when it does not apply)."""
    k = op["op"]
    doc = tr.doc
    if k == "replace":
        return tr.replace(op["from"], op["to"], c.slice(op["slice"]))
    if k == "replace_range":
        return tr.replace_range(op["from"], op["to"], c.slice(op["slice"]))
    if k == "replace_with" and "nodes" in op:
        return tr.replace_with(op["from"], op["to"], [c.node(x) for x in op["nodes"]])
    if k == "insert" and "nodes" in op:
        return tr.insert(op["pos"], [c.node(x) for x in op["nodes"]])
    if k == "replace_with":
        return tr.replace_with(op["from"], op["to"], c.node(op["node"]))
    if k == "replace_range_with":
        return tr.replace_range_with(op["from"], op["to"], c.node(op["node"]))
    if k == "insert":
        return tr.insert(op["pos"], c.node(op["node"]))
    if k == "delete":
        return tr.delete(op["from"], op["to"])
    if k == "delete_range":
        return tr.delete_range(op["from"], op["to"])
    if k == "replace_step":
        return tr.step(pm_transform.ReplaceStep(op["from"], op["to"], c.slice(op["slice"])))
    if k in ("add_mark_step", "remove_mark_step"):
        # the primitive step over the whole range (what a peer sends, what inversion / merging produce)
        cls = pm_transform.AddMarkStep if k == "add_mark_step" else pm_transform.RemoveMarkStep
        return tr.step(cls(op["from"], op["to"], c.mark(op["mark"])))
    if k == "add_mark":
        return tr.add_mark(op["from"], op["to"], c.mark(op["mark"]))
    if k == "remove_mark":
        if "mark" in op:
            return tr.remove_mark(op["from"], op["to"], c.mark(op["mark"]))
        if "mark_type" in op:
            return tr.remove_mark(op["from"], op["to"], c.schema.marks[op["mark_type"]])
        return tr.remove_mark(op["from"], op["to"], None)
    if k == "add_node_mark":
        return tr.add_node_mark(op["pos"], c.mark(op["mark"]))
    if k == "remove_node_mark":
        if "mark" in op:
            return tr.remove_node_mark(op["pos"], c.mark(op["mark"]))
        return tr.remove_node_mark(op["pos"], c.schema.marks[op["mark_type"]])
    if k == "split":
        rp = doc.resolve(op["pos"])
        if op["depth"] > rp.depth:
            raise NotEnabled("depth")
        ta = None
        if op.get("type_after"):
            ta = [NodeTypeWithAttrs(c.schema.nodes[op["type_after"]], op.get("attrs_after"))]
        return tr.split(op["pos"], op["depth"], ta)
    if k == "join":
        if op["pos"] - op["depth"] < 0 or op["pos"] + op["depth"] > doc.content.size:
            raise NotEnabled("range")
        return tr.join(op["pos"], op["depth"])
    if k == "lift":
        rng = doc.resolve(op["from"]).block_range(doc.resolve(op["to"]))
        if rng is None:
            raise NotEnabled("no block range")
        target = op.get("target")
        if target is None:
            target = structure.lift_target(rng)
        if target is None:
            raise NotEnabled("no lift target")
        if target > rng.depth:
            raise NotEnabled("target")
        return tr.lift(rng, target)
    if k == "wrap":
        rng = doc.resolve(op["from"]).block_range(doc.resolve(op["to"]))
        if rng is None:
            raise NotEnabled("no block range")
        w = structure.find_wrapping(rng, c.schema.nodes[op["type"]], op.get("attrs"))
        if w is None:
            raise NotEnabled("no wrapping")
        return tr.wrap(rng, w)
    if k == "set_block_type":
        return tr.set_block_type(op["from"], op["to"], c.schema.nodes[op["type"]], op.get("attrs"))
    if k == "set_node_markup":
        marks = op.get("marks")
        return tr.set_node_markup(op["pos"], c.schema.nodes[op["type"]] if op["type"] else None, op.get("attrs"),
                                  c.marks([m for m in marks if m]) if marks else None)
    if k == "set_node_attribute":
        return tr.set_node_attribute(op["pos"], op["attr"], op["value"])
    if k == "set_doc_attribute":
        return tr.set_doc_attribute(op["attr"], op["value"])
    raise KeyError(k)


def run_op(c, doc_node, op, prep=None):
    """Fresh Transform(doc) (+ prep(tr): earlier steps through the same Transform) + op.  Returns (status, tr, exc):
    status in 'ok' | 'noop' | 'rejected' (ValueError family) | 'internal' | 'n/a'."""
    tr = adapters.Transform(doc_node)
    before = 0
    try:
        if prep is not None:
            prep(tr)
            before = len(tr.steps)
        apply_op(c, tr, op)
    except NotEnabled as e:
        return ("n/a", tr, e)
    except ValueError as e:
        return ("rejected", tr, e)
    except RecursionError as e:
        return ("internal", tr, e)
    except Exception as e:  # noqa: BLE001
        from .engine import Watchdog

        if isinstance(e, Watchdog):
            raise
        return ("internal", tr, e)
    return ("ok" if len(tr.steps) > before else "noop", tr, None)
