"""Reference expectations for HTML import/export (no prosemirror import)."""

from __future__ import annotations


def context_matches(ctx: str, ancestors: list, groups_of) -> bool:
    """Does the context expression match the chain of open ancestor node types (outermost first)?

    Documented meaning: names (or group names) separated by '/', a trailing '/', '//' = any sequence of
    ancestors, alternatives separated by '|'.  The match is anchored at the innermost ancestor only."""
    for alt in [a.strip() for a in ctx.split("|")]:
        parts = alt.split("/")
        if parts and parts[-1] == "":
            parts = parts[:-1]

        def m(i, depth):
            if i < 0:
                return True
            tok = parts[i]
            if tok == "":
                if i == 0:
                    return True
                d = depth
                while d >= -1:
                    if m(i - 1, d):
                        return True
                    d -= 1
                return False
            if depth < 0:
                return False
            node = ancestors[depth]
            if node == tok or tok in groups_of(node):
                return m(i - 1, depth - 1)
            return False

        if m(len(parts) - 1, len(ancestors) - 1):
            return True
    return False


def textblock_texts(model, node, out):
    """[(textblock type, [inline children json])] in document order."""
    t = model.types[node["type"]]
    if t.is_textblock:
        out.append((node["type"], node.get("content") or []))
        return
    for k in node.get("content") or []:
        if not model.types[k["type"]].is_text:
            textblock_texts(model, k, out)


def whitespace_normal(model, doc) -> bool:
    """Text of every non-code textblock: no leading/trailing/double spaces, no space directly after a hard
    break, only ' ' as whitespace.  Code blocks: anything except a carriage return and a leading newline
    (HTML parsers drop a newline directly after <pre>)."""
    blocks = []
    textblock_texts(model, doc, blocks)
    for tname, kids in blocks:
        code = model.types[tname].code
        flat = []
        for k in kids:
            if k["type"] == "text":
                flat.append(k["text"])
            elif k["type"] == "hard_break":
                flat.append("\x00")
            else:
                flat.append("\x01")
        s = "".join(flat)
        if code:
            if "\r" in s or s.startswith("\n"):
                return False
            continue
        if any(ch in s for ch in "\t\n\r\x0c"):
            return False
        if s.startswith(" ") or s.endswith(" ") or "  " in s or "\x00 " in s:
            return False
    return True
