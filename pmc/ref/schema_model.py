"""Reference schema semantics, computed from the *spec dict* only.

Nothing here imports prosemirror.  A SchemaModel answers: which child type
sequences a node type accepts, which marks it allows, which marks exclude which,
what the attribute defaults are, which types are generatable, leaf, inline ...
"""

from __future__ import annotations

from . import cexpr


class TypeModel:
    __slots__ = (
        "name", "spec", "groups", "ast", "regex", "is_text", "is_inline", "is_block",
        "is_leaf", "inline_content", "is_textblock", "attrs", "required_attrs",
        "default_attrs", "allowed_marks", "isolating", "generatable", "code", "atom",
        "defining",
    )


class MarkModel:
    __slots__ = ("name", "rank", "spec", "attrs", "required_attrs", "default_attrs",
                 "excludes", "groups", "inclusive")


class SchemaModel:
    def __init__(self, spec: dict):
        self.spec = spec
        nodes = spec["nodes"]
        marks = spec.get("marks") or {}
        self.type_names = list(nodes.keys())
        self.mark_names = list(marks.keys())
        self.types: dict[str, TypeModel] = {}
        self.marks: dict[str, MarkModel] = {}
        self.top = spec.get("topNode") or "doc"

        for rank, (name, ms) in enumerate(marks.items()):
            m = MarkModel()
            m.name = name
            m.rank = rank
            m.spec = ms
            m.attrs = list((ms.get("attrs") or {}).keys())
            m.required_attrs = [a for a, s in (ms.get("attrs") or {}).items() if "default" not in s]
            m.default_attrs = {a: s["default"] for a, s in (ms.get("attrs") or {}).items() if "default" in s}
            m.groups = ms["group"].split(" ") if ms.get("group") else []
            m.inclusive = ms.get("inclusive") is not False
            self.marks[name] = m
        for name, m in self.marks.items():
            ex = m.spec.get("excludes")
            if ex is None:
                m.excludes = [name]
            elif ex == "":
                m.excludes = []
            else:
                m.excludes = self._gather_marks(ex.split(" "))

        for name, ns in nodes.items():
            t = TypeModel()
            t.name = name
            t.spec = ns
            t.groups = ns["group"].split(" ") if "group" in ns else []
            t.is_text = name == "text"
            t.is_inline = bool(ns.get("inline")) or t.is_text
            t.is_block = not t.is_inline
            t.attrs = list((ns.get("attrs") or {}).keys())
            t.required_attrs = [a for a, s in (ns.get("attrs") or {}).items() if "default" not in s]
            t.default_attrs = {a: s["default"] for a, s in (ns.get("attrs") or {}).items() if "default" in s}
            t.isolating = bool(ns.get("isolating"))
            t.code = bool(ns.get("code"))
            t.defining = bool(ns.get("defining"))
            t.generatable = not t.is_text and not t.required_attrs
            self.types[name] = t
        for name, t in self.types.items():
            t.ast = cexpr.parse(t.spec.get("content", "") or "")
            t.is_leaf = t.ast is None
            t.atom = t.is_leaf or bool(t.spec.get("atom"))
            t.regex = cexpr.to_regex(t.ast, self.resolve)
            first = cexpr.first(t.regex)
            # inline content: the first possible child (declaration order) is inline;
            # a well-formed expression never mixes inline and block content.
            kinds = {self.types[n].is_inline for n in cexpr.symbols(t.regex)}
            t.inline_content = bool(first) and kinds == {True}
            t.is_textblock = t.is_block and t.inline_content
        for name, t in self.types.items():
            me = t.spec.get("marks")
            if me == "_":
                t.allowed_marks = list(self.mark_names)
            elif me:
                t.allowed_marks = self._gather_marks(me.split(" "))
            elif me == "" or not t.inline_content:
                t.allowed_marks = []
            else:
                t.allowed_marks = list(self.mark_names)

    # -- names -------------------------------------------------------------
    def resolve(self, name: str) -> list[str]:
        if name in self.types:
            return [name]
        out = [n for n, t in self.types.items() if name in t.groups]
        if not out:
            raise KeyError(name)
        return out

    def _gather_marks(self, names) -> list[str]:
        found = []
        for n in names:
            if n in self.marks:
                found.append(n)
            elif n == "_":
                found.extend(self.mark_names)
            else:
                grp = [m for m, mm in self.marks.items() if n in mm.groups]
                if not grp:
                    raise KeyError(n)
                found.extend(grp)
        # keep order of first appearance, no duplicates
        out = []
        for n in found:
            if n not in out:
                out.append(n)
        return out

    # -- marks -------------------------------------------------------------
    def mark_excludes(self, a: str, b: str) -> bool:
        return b in self.marks[a].excludes

    def mark_rank(self, name: str) -> int:
        return self.marks[name].rank

    def allows_mark(self, parent: str, mark: str) -> bool:
        return mark in self.types[parent].allowed_marks

    # -- attrs -------------------------------------------------------------
    def full_attrs(self, type_name: str, given: dict | None):
        """Attrs as the library computes them (None values count as missing)."""
        t = self.types[type_name]
        out = {}
        for a in t.attrs:
            v = (given or {}).get(a)
            if v is None:
                if a in t.default_attrs:
                    v = t.default_attrs[a]
                else:
                    raise ValueError("missing attr " + a)
            out[a] = v
        return out

    def full_mark_attrs(self, mark_name: str, given: dict | None):
        m = self.marks[mark_name]
        out = {}
        for a in m.attrs:
            v = (given or {}).get(a)
            if v is None:
                if a in m.default_attrs:
                    v = m.default_attrs[a]
                else:
                    raise ValueError("missing attr " + a)
            out[a] = v
        return out

    # -- content -----------------------------------------------------------
    def content_ok(self, type_name: str, child_types) -> bool:
        return cexpr.matches(self.types[type_name].regex, child_types)

    def compatible_content(self, a: str, b: str) -> bool:
        """Documented content compatibility: same type, or some type can start both."""
        if a == b:
            return True
        fa = set(cexpr.first(self.types[a].regex))
        fb = set(cexpr.first(self.types[b].regex))
        return bool(fa & fb)
