"""Reference model of slices and of replace-as-splice, on tokens (no prosemirror import)."""

from __future__ import annotations

from . import tokens as tk
from .tokens import jkey


def open_stack(T: list, pos: int) -> list:
    """Open tokens of the nodes that are open at position pos (outermost first)."""
    st = []
    for t in T[:pos]:
        if t[0] == "o":
            st.append(t)
        elif t[0] == "c":
            st.pop()
    return st


def is_midpair(T: list, pos: int) -> bool:
    """True if pos separates a UTF-16 high surrogate from its low surrogate."""
    if 0 < pos < len(T):
        a, b = T[pos - 1], T[pos]
        if a[0] == "t" and b[0] == "t" and 0xD800 <= a[1] < 0xDC00 and 0xDC00 <= b[1] < 0xE000:
            return True
    return False


def ref_slice(T: list, a: int, b: int):
    """(content_nodes_json, open_start, open_end) of the range a..b of a token list."""
    if a == b:
        return [], 0, 0
    mid = T[a:b]
    lo, fin = tk.balanced_profile(mid)
    os_ = -lo
    oe = fin - lo
    st = open_stack(T, a)
    pre = st[len(st) - os_:] if os_ else []
    toks = list(pre) + mid + [("c",)] * oe
    content = tk.parse_content(toks)
    assert content is not None
    return content, os_, oe


def slice_tokens(model, sl: dict) -> list:
    """Tokens a slice contributes to a splice: tokens(content)[openStart : len - openEnd]."""
    T = tk.content_tokens(model, sl.get("content") or [])
    return T[sl.get("openStart", 0): len(T) - sl.get("openEnd", 0)]


def spine(content: list, depth: int, side: int) -> list:
    """The first-child (side=0) or last-child (side=-1) chain of node JSONs, `depth` long."""
    out = []
    cur = content
    for _ in range(depth):
        if not cur:
            return out
        n = cur[side]
        out.append(n)
        cur = n.get("content") or []
    return out


def slice_key(sl: dict) -> str:
    return jkey([sl.get("content") or [], sl.get("openStart", 0), sl.get("openEnd", 0)])


def all_slices(model, docs, seen=None, with_midpair=False) -> list:
    """All distinct slices doc[a:b] of the given documents (reference-computed), plus the
    closed slice of every node.  Each is {"content","openStart","openEnd"}; smallest first."""
    seen = {} if seen is None else seen
    for d in docs:
        T = tk.doc_tokens(model, d)
        n = len(T)
        for a in range(n + 1):
            if not with_midpair and is_midpair(T, a):
                continue
            for b in range(a + 1, n + 1):
                if not with_midpair and is_midpair(T, b):
                    continue
                c, os_, oe = ref_slice(T, a, b)
                sl = {"content": c, "openStart": os_, "openEnd": oe}
                k = slice_key(sl)
                if k not in seen:
                    seen[k] = sl
    out = list(seen.values())
    out.sort(key=lambda s: (tk.content_size(model, s["content"]), s["openStart"] + s["openEnd"], slice_key(s)))
    return out


def splice(T: list, frm: int, to: int, S: list) -> list:
    return T[:frm] + S + T[to:]


def join_pairs(model, T: list, frm: int, to: int, sl: dict):
    """Pairs (type_a, type_b) of nodes that a replace joins into one node (see DESIGN C02).
    Returns None if the open depths are inconsistent."""
    A = [t[1] for t in open_stack(T, frm)]
    B = [t[1] for t in open_stack(T, to)]
    os_, oe = sl.get("openStart", 0), sl.get("openEnd", 0)
    df, dt = len(A), len(B)
    if os_ > df or df - os_ != dt - oe:
        return None
    base = df - os_
    # shared depth of from/to: deepest L with the same open node
    stA = _open_positions(T, frm)
    stB = _open_positions(T, to)
    shared = 0
    for L in range(min(df, dt)):
        if stA[L] == stB[L]:
            shared = L + 1
        else:
            break
    pairs = []
    for L in range(shared, base):
        pairs.append((A[L], B[L]))
    content = sl.get("content") or []
    s_sp = spine(content, os_, 0)
    e_sp = spine(content, oe, -1)
    for k in range(os_):
        pairs.append((A[base + k], s_sp[k]["type"]))
    for k in range(oe):
        pairs.append((e_sp[k]["type"], B[base + k]))
    # shared spine: same slice node on both sides
    cur = content
    for k in range(min(os_, oe)):
        if len(cur) != 1:
            break
        pairs.append((A[base + k], B[base + k]))
        cur = cur[0].get("content") or []
    return pairs


def _open_positions(T: list, pos: int) -> list:
    st = []
    for i, t in enumerate(T[:pos]):
        if t[0] == "o":
            st.append(i)
        elif t[0] == "c":
            st.pop()
    return st
