"""Reference mark algebra on JSON marks ({"type": name, "attrs": {...}}).

Written from the documented rule; imports nothing from prosemirror.
"""

from __future__ import annotations

from .tokens import jkey


def mark_eq(a, b) -> bool:
    return a["type"] == b["type"] and jkey(a.get("attrs") or {}) == jkey(b.get("attrs") or {})


def in_set(m, s) -> bool:
    return any(mark_eq(m, x) for x in s)


def add(model, m, s):
    """Documented add-to-set rule.

    unchanged if an equal mark is present, or a present mark excludes the new one
    and is not itself excluded by it; otherwise the marks the new one excludes
    disappear, all others stay in order, the new mark sits at its rank position
    (after the last kept mark with rank <= its rank)."""
    if in_set(m, s):
        return list(s)
    for x in s:
        if not model.mark_excludes(m["type"], x["type"]) and model.mark_excludes(x["type"], m["type"]):
            return list(s)
    kept = [x for x in s if not model.mark_excludes(m["type"], x["type"])]
    rank = model.mark_rank(m["type"])
    idx = len(kept)
    for i, x in enumerate(kept):
        if model.mark_rank(x["type"]) > rank:
            idx = i
            break
    return kept[:idx] + [m] + kept[idx:]


def remove(m, s):
    return [x for x in s if not mark_eq(x, m)]


def remove_type(tname, s):
    return [x for x in s if x["type"] != tname]


def same_set(a, b) -> bool:
    return len(a) == len(b) and all(mark_eq(x, y) for x, y in zip(a, b))


def is_canonical(model, s) -> bool:
    """Rank-sorted, no two equal marks, closed under the exclusion rule."""
    for i in range(len(s) - 1):
        if model.mark_rank(s[i]["type"]) > model.mark_rank(s[i + 1]["type"]):
            return False
    for i in range(len(s)):
        for j in range(i + 1, len(s)):
            if mark_eq(s[i], s[j]):
                return False
    built = []
    for m in s:
        built = add(model, m, built)
    return same_set(built, list(s))


def allowed(model, parent_type: str, s):
    return [m for m in s if model.allows_mark(parent_type, m["type"])]


def canon_set(model, marks):
    """Sort by rank (stable) - what Mark.set_from documents."""
    return sorted(marks, key=lambda m: model.mark_rank(m["type"]))
