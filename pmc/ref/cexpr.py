"""Reference semantics of ProseMirror content expressions.

Independent of the library: own tokenizer / recursive-descent recogniser and
Brzozowski derivatives with ACI-normalised terms.  Nothing here imports
prosemirror.

Grammar (as documented upstream):
    expr := seq ('|' seq)*
    seq  := sub+
    sub  := atom ('+' | '*' | '?' | '{' n '}' | '{' n ',' '}' | '{' n ',' m '}')*
    atom := name | '(' expr ')'

AST:  ("name", n) ("seq", [..]) ("choice", [..]) ("star", e) ("plus", e)
      ("opt", e) ("range", e, lo, hi)   (hi == -1: unbounded)

Regular terms (hashable tuples):
    EMPTY=("0",)  EPS=("e",)  ("s", sym)  ("c", a, b)  ("a", (t1, t2, ..))  ("*", a)
"""

from __future__ import annotations

import re
from functools import lru_cache


class ExprSyntaxError(Exception):
    pass


_TOK = re.compile(r"\s*(\w+|\S)")


def tokenize(s: str) -> list[str]:
    out = []
    pos = 0
    s = s.rstrip()
    while pos < len(s):
        m = _TOK.match(s, pos)
        if not m:
            break
        out.append(m.group(1))
        pos = m.end()
    return out


def parse(s: str):
    """Parse a content expression string; '' (no tokens) -> None (leaf content)."""
    toks = tokenize(s)
    if not toks:
        return None
    pos = 0

    def peek():
        return toks[pos] if pos < len(toks) else None

    def eat(t):
        nonlocal pos
        if peek() == t:
            pos += 1
            return True
        return False

    def p_expr():
        items = [p_seq()]
        while eat("|"):
            items.append(p_seq())
        return items[0] if len(items) == 1 else ("choice", items)

    def p_seq():
        items = [p_sub()]
        while peek() is not None and peek() not in (")", "|"):
            items.append(p_sub())
        return items[0] if len(items) == 1 else ("seq", items)

    def p_num():
        nonlocal pos
        t = peek()
        if t is None or not re.fullmatch(r"[0-9]+", t):
            raise ExprSyntaxError(f"expected number, got {t!r}")
        pos += 1
        return int(t)

    def p_sub():
        e = p_atom()
        while True:
            if eat("+"):
                e = ("plus", e)
            elif eat("*"):
                e = ("star", e)
            elif eat("?"):
                e = ("opt", e)
            elif eat("{"):
                lo = p_num()
                hi = lo
                if eat(","):
                    hi = -1 if peek() == "}" else p_num()
                if not eat("}"):
                    raise ExprSyntaxError("unclosed braced range")
                e = ("range", e, lo, hi)
            else:
                return e

    def p_atom():
        nonlocal pos
        if eat("("):
            e = p_expr()
            if not eat(")"):
                raise ExprSyntaxError("missing closing paren")
            return e
        t = peek()
        if t is None or not re.fullmatch(r"\w+", t):
            raise ExprSyntaxError(f"unexpected token {t!r}")
        pos += 1
        return ("name", t)

    e = p_expr()
    if pos != len(toks):
        raise ExprSyntaxError("unexpected trailing text")
    return e


def names_of(ast) -> list[str]:
    out = []

    def walk(e):
        k = e[0]
        if k == "name":
            out.append(e[1])
        elif k in ("seq", "choice"):
            for x in e[1]:
                walk(x)
        else:
            walk(e[1])

    if ast is not None:
        walk(ast)
    return out


# ----------------------------------------------------------------------------
# regular terms

EMPTY = ("0",)
EPS = ("e",)


def sym(t):
    return ("s", t)


def cat(a, b):
    if a == EMPTY or b == EMPTY:
        return EMPTY
    if a == EPS:
        return b
    if b == EPS:
        return a
    if a[0] == "c":  # right-associate
        return cat(a[1], cat(a[2], b))
    return ("c", a, b)


def alt(*items):
    flat = set()
    for x in items:
        if x == EMPTY:
            continue
        if x[0] == "a":
            flat.update(x[1])
        else:
            flat.add(x)
    if not flat:
        return EMPTY
    if len(flat) == 1:
        return next(iter(flat))
    return ("a", tuple(sorted(flat, key=repr)))


def star(a):
    if a == EMPTY or a == EPS:
        return EPS
    if a[0] == "*":
        return a
    return ("*", a)


@lru_cache(maxsize=None)
def nullable(r) -> bool:
    k = r[0]
    if k == "e" or k == "*":
        return True
    if k == "0" or k == "s":
        return False
    if k == "c":
        return nullable(r[1]) and nullable(r[2])
    return any(nullable(x) for x in r[1])


@lru_cache(maxsize=None)
def deriv(r, t):
    k = r[0]
    if k == "0" or k == "e":
        return EMPTY
    if k == "s":
        return EPS if r[1] == t else EMPTY
    if k == "c":
        d = cat(deriv(r[1], t), r[2])
        if nullable(r[1]):
            return alt(d, deriv(r[2], t))
        return d
    if k == "a":
        return alt(*[deriv(x, t) for x in r[1]])
    return cat(deriv(r[1], t), r)


@lru_cache(maxsize=None)
def symbols(r) -> frozenset:
    k = r[0]
    if k == "s":
        return frozenset([r[1]])
    if k == "c":
        return symbols(r[1]) | symbols(r[2])
    if k == "a":
        s = frozenset()
        for x in r[1]:
            s |= symbols(x)
        return s
    if k == "*":
        return symbols(r[1])
    return frozenset()


def first(r) -> list:
    """Symbols t with a non-empty derivative (sorted)."""
    return sorted(t for t in symbols(r) if deriv(r, t) != EMPTY)


def is_empty(r) -> bool:
    # with the smart constructors a term denotes the empty language iff it is EMPTY
    return r == EMPTY


def power(r, n):
    out = EPS
    for _ in range(n):
        out = cat(r, out)
    return out


def to_regex(ast, resolve):
    """AST -> regular term.  resolve(name) -> list of type names (group expansion)."""
    if ast is None:
        return EPS
    k = ast[0]
    if k == "name":
        return alt(*[sym(t) for t in resolve(ast[1])])
    if k == "seq":
        out = EPS
        for e in reversed(ast[1]):
            out = cat(to_regex(e, resolve), out)
        return out
    if k == "choice":
        return alt(*[to_regex(e, resolve) for e in ast[1]])
    inner = to_regex(ast[1], resolve)
    if k == "star":
        return star(inner)
    if k == "plus":
        return cat(inner, star(inner))
    if k == "opt":
        return alt(EPS, inner)
    if k == "range":
        lo, hi = ast[2], ast[3]
        head = power(inner, lo)
        if hi == -1:
            return cat(head, star(inner))
        tail = EPS
        for _ in range(max(0, hi - lo)):
            tail = alt(EPS, cat(inner, tail))
        return cat(head, tail)
    raise AssertionError(k)


def matches(r, seq) -> bool:
    for t in seq:
        r = deriv(r, t)
        if r == EMPTY:
            return False
    return nullable(r)


def run(r, seq):
    """State after consuming seq, or EMPTY."""
    for t in seq:
        r = deriv(r, t)
        if r == EMPTY:
            return EMPTY
    return r


def reachable(r, alphabet):
    seen = {r}
    todo = [r]
    while todo:
        x = todo.pop()
        for t in alphabet:
            d = deriv(x, t)
            if d != EMPTY and d not in seen:
                seen.add(d)
                todo.append(d)
    return seen


def render(ast, paren_all=False) -> str:
    """AST -> expression string (minimal parentheses unless paren_all)."""
    k = ast[0]
    if k == "name":
        return ast[1]
    if k == "seq":
        parts = []
        for e in ast[1]:
            s = render(e, paren_all)
            if e[0] in ("choice", "seq") or paren_all and e[0] != "name":
                s = "(" + s + ")"
            parts.append(s)
        return " ".join(parts)
    if k == "choice":
        parts = []
        for e in ast[1]:
            s = render(e, paren_all)
            if e[0] == "choice" or paren_all and e[0] != "name":
                s = "(" + s + ")"
            parts.append(s)
        return " | ".join(parts)
    s = render(ast[1], paren_all)
    if ast[1][0] in ("seq", "choice") or paren_all and ast[1][0] != "name":
        s = "(" + s + ")"
    if k == "star":
        return s + "*"
    if k == "plus":
        return s + "+"
    if k == "opt":
        return s + "?"
    lo, hi = ast[2], ast[3]
    if hi == lo:
        return s + "{%d}" % lo
    if hi == -1:
        return s + "{%d,}" % lo
    return s + "{%d,%d}" % (lo, hi)


def brute_language(ast_regex, alphabet, maxlen):
    """All strings up to maxlen accepted, by brute force on the AST-free definition."""
    out = set()

    def rec(prefix, r):
        if nullable(r):
            out.add(tuple(prefix))
        if len(prefix) == maxlen:
            return
        for t in alphabet:
            d = deriv(r, t)
            if d != EMPTY:
                rec(prefix + [t], d)

    rec([], ast_regex)
    return out


# naive set-based semantics (used only for the start-up self test of the derivative engine)
def naive_lang(ast, resolve, alphabet, maxlen):
    def L(e):
        k = e[0]
        if k == "name":
            return {(t,) for t in resolve(e[1])}
        if k == "seq":
            cur = {()}
            for x in e[1]:
                lx = L(x)
                cur = {a + b for a in cur for b in lx if len(a) + len(b) <= maxlen}
            return cur
        if k == "choice":
            s = set()
            for x in e[1]:
                s |= L(x)
            return s
        inner = L(e[1])
        if k == "opt":
            return inner | {()}
        if k in ("star", "plus"):
            lo, hi = (0, -1) if k == "star" else (1, -1)
        else:
            lo, hi = e[2], e[3]
        powers = [{()}]
        n = 0
        res = set()
        while True:
            if n >= lo and (hi == -1 or n <= hi):
                res |= powers[-1]
            n += 1
            if hi != -1 and n > hi:
                break
            nxt = {a + b for a in powers[-1] for b in inner if len(a) + len(b) <= maxlen}
            if n > maxlen + 1 and nxt <= res:
                break
            if not nxt:
                break
            powers.append(nxt)
            if n > maxlen + 2:
                break
        return res

    return {w for w in L(ast) if len(w) <= maxlen}


def selftest():
    cases = [
        "a", "a b", "a | b", "a*", "a+", "a?", "a{2}", "a{1,2}", "a{1,}", "(a | b)+ c",
        "a? b*", "(a b)* c?", "a{0}", "a{0,2} b", "(a | b c){2}", "a?{1}*", "(a*)+",
        "g+", "g a?", "(a b | c)*",
    ]
    groups = {"g": ["a", "b"]}
    resolve = lambda n: groups.get(n, [n])  # noqa: E731
    alphabet = ["a", "b", "c"]
    for s in cases:
        ast = parse(s)
        r = to_regex(ast, resolve)
        got = brute_language(r, alphabet, 5)
        exp = naive_lang(ast, resolve, alphabet, 5)
        assert got == exp, (s, sorted(got ^ exp)[:5])
        assert parse(render(ast)) == ast, s
    for bad in ["(a", "a)", "a |", "| a", "a{", "a{1", "a{,2}", "a{1,2", "+", "a b |", "()", "a{x}"]:
        try:
            parse(bad)
        except ExprSyntaxError:
            continue
        raise AssertionError(f"accepted {bad!r}")
    return len(cases)
