"""Reference validator for JSON documents (no prosemirror import).

A node is valid iff its child-type sequence is in the language of its type's
content expression, every child's marks are allowed by the node, every mark list
is canonical, text nodes are non-empty, and all of that holds for every descendant.
"""

from __future__ import annotations

from . import cexpr, marks as rmarks


def node_problem(model, node: dict, path="") -> str | None:
    """None if valid; otherwise a short description of the first problem."""
    tname = node["type"]
    if tname not in model.types:
        return f"{path}: unknown type {tname}"
    t = model.types[tname]
    ms = node.get("marks") or []
    for m in ms:
        if m["type"] not in model.marks:
            return f"{path}: unknown mark {m['type']}"
    if not rmarks.is_canonical(model, ms):
        return f"{path}/{tname}: non-canonical mark set {[m['type'] for m in ms]}"
    if t.is_text:
        if not node.get("text"):
            return f"{path}: empty text"
        return None
    kids = node.get("content") or []
    if t.is_leaf and kids:
        return f"{path}/{tname}: leaf with content"
    if not cexpr.matches(t.regex, [k["type"] for k in kids]):
        return f"{path}/{tname}: content {[k['type'] for k in kids]} does not match {t.spec.get('content', '')!r}"
    for i, k in enumerate(kids):
        for m in k.get("marks") or []:
            if not model.allows_mark(tname, m["type"]):
                return f"{path}/{tname}[{i}]: mark {m['type']} not allowed"
    for i, k in enumerate(kids):
        p = node_problem(model, k, f"{path}/{tname}[{i}]")
        if p:
            return p
    return None


def shallow_problem(model, node: dict) -> str | None:
    """Validity of this node only (content expression + child marks allowed)."""
    t = model.types[node["type"]]
    kids = node.get("content") or []
    if not cexpr.matches(t.regex, [k["type"] for k in kids]):
        return "content"
    for k in kids:
        for m in k.get("marks") or []:
            if not model.allows_mark(node["type"], m["type"]):
                return "marks"
    return None


def is_valid(model, node: dict) -> bool:
    return node_problem(model, node) is None


def text_normal(node: dict) -> str | None:
    """No empty text nodes and no adjacent text nodes with equal marks."""
    kids = node.get("content") or []
    prev = None
    for k in kids:
        if k["type"] == "text":
            if not k.get("text"):
                return "empty text node"
            mk = rmarks.jkey(k.get("marks") or [])
            if prev is not None and prev == mk:
                return "adjacent text nodes with the same marks"
            prev = mk
        else:
            prev = None
            p = text_normal(k)
            if p:
                return p
    return None
