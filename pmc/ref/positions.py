"""Reference model of positions and traversal, computed from JSON by counting (no prosemirror import).

Every node of the JSON tree is annotated with its absolute position (`pos` = position directly before the
node, in the coordinates of the top node's content) and size; all accessors are then defined directly
from the documented meaning.
"""

from __future__ import annotations

from . import marks as rmk
from . import tokens as tk


class RNode:
    __slots__ = ("j", "type", "pos", "size", "kids", "is_text", "is_leaf", "parent", "index", "marks", "text", "tm")

    def __init__(self, model, j, pos, parent, index):
        self.j = j
        self.type = j["type"]
        self.tm = model.types[self.type]
        self.pos = pos
        self.parent = parent
        self.index = index
        self.marks = j.get("marks") or []
        self.is_text = self.type == "text"
        self.is_leaf = self.tm.is_leaf
        self.text = j.get("text")
        self.kids = []
        if self.is_text:
            self.size = tk.ulen(j["text"])
        elif self.is_leaf:
            self.size = 1
        else:
            p = pos + 1
            for i, k in enumerate(j.get("content") or []):
                n = RNode(model, k, p, self, i)
                self.kids.append(n)
                p += n.size
            self.size = p - pos + 1

    @property
    def content_start(self):
        return self.pos + 1

    @property
    def content_size(self):
        return self.size - 2 if not (self.is_text or self.is_leaf) else 0

    @property
    def content_end(self):
        return self.content_start + self.content_size

    @property
    def end(self):
        return self.pos + self.size


class RefDoc:
    def __init__(self, model, doc_json):
        self.model = model
        # the top node sits at position -1 so that its content starts at 0
        self.root = RNode(model, doc_json, -1, None, 0)
        self.size = self.root.content_size

    # -- resolve -----------------------------------------------------------
    def resolve(self, p):
        """dict(depth, nodes[list RNode], index[list], text_offset)"""
        if p < 0 or p > self.size:
            raise ValueError("out of range")
        nodes = [self.root]
        idx = []
        cur = self.root
        text_offset = 0
        while True:
            inside = None
            count_before = 0
            for k in cur.kids:
                if k.end <= p:
                    count_before += 1
                elif k.pos < p:
                    inside = k
                    break
                else:
                    break
            if inside is None:
                idx.append(count_before)
                break
            if inside.is_text:
                idx.append(inside.index)
                text_offset = p - inside.pos
                break
            # strictly inside a non-text node (leaf nodes have size 1: impossible)
            idx.append(inside.index)
            nodes.append(inside)
            cur = inside
        return {"pos": p, "depth": len(nodes) - 1, "nodes": nodes, "index": idx, "text_offset": text_offset}

    def start(self, r, d):
        return 0 if d == 0 else r["nodes"][d].content_start

    def end(self, r, d):
        return self.start(r, d) + r["nodes"][d].content_size

    def before(self, r, d):
        if d == 0:
            raise ValueError
        if d == r["depth"] + 1:
            return r["pos"]
        return r["nodes"][d].pos

    def after(self, r, d):
        if d == 0:
            raise ValueError
        if d == r["depth"] + 1:
            return r["pos"]
        return r["nodes"][d].end

    def index_after(self, r, d):
        return r["index"][d] + (0 if d == r["depth"] and not r["text_offset"] else 1)

    def parent_offset(self, r):
        return r["pos"] - self.start(r, r["depth"])

    def node_after(self, r):
        par = r["nodes"][-1]
        i = r["index"][-1]
        if i == len(par.kids):
            return None
        k = par.kids[i]
        if r["text_offset"]:
            us = tk.units(k.text)[r["text_offset"]:]
            return cut_text(k.j, us)
        return k.j

    def node_before(self, r):
        par = r["nodes"][-1]
        i = r["index"][-1]
        if r["text_offset"]:
            k = par.kids[i]
            return cut_text(k.j, tk.units(k.text)[: r["text_offset"]])
        return par.kids[i - 1].j if i > 0 else None

    def pos_at_index(self, r, i, d):
        n = r["nodes"][d]
        p = self.start(r, d)
        for k in n.kids[:i]:
            p += k.size
        return p

    def marks(self, r):
        par = r["nodes"][-1]
        i = r["index"][-1]
        if not par.kids:
            return []
        if r["text_offset"]:
            return par.kids[i].marks
        main = par.kids[i - 1] if i > 0 else None
        other = par.kids[i] if i < len(par.kids) else None
        if main is None:
            main, other = other, None
        out = list(main.marks)
        for m in main.marks:
            if not self.model.marks[m["type"]].inclusive and (other is None or not rmk.in_set(m, other.marks)):
                out = rmk.remove(m, out)
        return out

    def marks_across(self, r, r_end):
        par = r["nodes"][-1]
        i = r["index"][-1]
        after = par.kids[i] if i < len(par.kids) else None
        if after is None or not after.tm.is_inline:
            return None
        ep = r_end["nodes"][-1]
        ei = r_end["index"][-1]
        nxt = ep.kids[ei] if ei < len(ep.kids) else None
        out = list(after.marks)
        for m in after.marks:
            if not self.model.marks[m["type"]].inclusive and (nxt is None or not rmk.in_set(m, nxt.marks)):
                out = rmk.remove(m, out)
        return out

    def shared_depth(self, r, q):
        for d in range(r["depth"], 0, -1):
            if self.start(r, d) <= q <= self.end(r, d):
                return d
        return 0

    def block_range(self, r, r2):
        """(depth, start, end, start_index, end_index, parent RNode) or None, for r.pos <= r2.pos."""
        par = r["nodes"][-1]
        d = r["depth"] - (1 if (par.tm.inline_content or r["pos"] == r2["pos"]) else 0)
        while d >= 0:
            if r2["pos"] <= self.end(r, d):
                return (d, self.before(r, d + 1), self.after(r2, d + 1), r["index"][d], self.index_after(r2, d),
                        r["nodes"][d])
            d -= 1
        return None

    # -- node level --------------------------------------------------------
    def node_at(self, node: RNode, off: int):
        """Node directly after offset `off` of node's content (descending), or None."""
        base = node.content_start
        p = base + off
        cur = node
        while True:
            hit = None
            for k in cur.kids:
                if k.pos == p:
                    return k
                if k.pos < p < k.end:
                    hit = k
                    break
            if hit is None:
                return None
            if hit.is_text:
                return hit
            cur = hit

    def child_after(self, node: RNode, off: int):
        base = node.content_start
        p = base + off
        for k in node.kids:
            if k.end > p:
                return (k, k.index, k.pos - base)
        return (None, len(node.kids), node.content_size)

    def child_before(self, node: RNode, off: int):
        base = node.content_start
        p = base + off
        if off == 0:
            return (None, 0, 0)
        last = None
        for k in node.kids:
            if k.pos < p:
                last = k
            else:
                break
        return (last, last.index, last.pos - base)

    def find_index(self, node: RNode, off: int, rnd: int):
        base = node.content_start
        if off == 0:
            return (0, 0)
        if off == node.content_size:
            return (len(node.kids), off)
        if off < 0 or off > node.content_size:
            raise ValueError
        p = base + off
        for k in node.kids:
            if k.end >= p:
                if k.end == p or rnd > 0:
                    return (k.index + 1, k.end - base)
                return (k.index, k.pos - base)
        raise AssertionError

    def visit(self, node: RNode, frm: int, to: int, stop=None):
        """Pre-order list of (RNode, pos relative to node content, parent RNode, index) of all nodes that
        overlap the range (child.pos < to and child.end > from); stop(n) -> True means do not descend."""
        base = node.content_start
        out = []

        def rec(par, a, b):
            for k in par.kids:
                if k.pos < b and k.end > a:
                    out.append((k, k.pos - base, par, k.index))
                    if (stop is None or not stop(k)) and k.kids:
                        rec(k, a, b)

        rec(node, base + frm, base + to)
        return out

    def text_between(self, node: RNode, frm: int, to: int, sep="", leaf_text=""):
        base = node.content_start
        parts = []
        separated = True
        for k, pos, par, idx in self.visit(node, frm, to):
            if k.is_text:
                us = tk.units(k.text)
                a = max(frm, pos) - pos
                b = to - pos
                parts.append(("u", us[a:b]))
                separated = not sep
            elif k.is_leaf:
                if leaf_text:
                    parts.append(("s", leaf_text))
                separated = not sep
            elif not separated and k.tm.is_block:
                parts.append(("s", sep))
                separated = True
        _ = base
        return parts

    def all_nodes(self):
        out = [self.root]
        i = 0
        while i < len(out):
            out.extend(out[i].kids)
            i += 1
        return out


def cut_text(j, us):
    n = {"type": "text", "text": tk.from_units(us)}
    if j.get("marks"):
        n["marks"] = j["marks"]
    return n


def join_parts(parts):
    """parts -> str; raises UnicodeError when a surrogate pair was split."""
    out = []
    for kind, v in parts:
        if kind == "s":
            out.append(v)
        else:
            b = bytearray()
            for u in v:
                b.append(u & 0xFF)
                b.append(u >> 8)
            out.append(bytes(b).decode("utf-16-le"))
    return "".join(out)
