"""Flat token model of documents, computed from JSON only (no prosemirror import).

Tokens:
    ("o", type, attrs_key, marks_key)   node open  (carries the node's markup)
    ("c",)                              node close (untyped view)
    ("l", type, attrs_key, marks_key)   leaf node
    ("t", unit, marks_key)              one UTF-16 code unit of text

A position is an index into the token list of a node's *content*.
"""

from __future__ import annotations

import json


def jkey(x) -> str:
    return json.dumps(x, sort_keys=True, separators=(",", ":"), ensure_ascii=True)


def marks_key(marks) -> str:
    return jkey(marks or [])


def units(text: str) -> list[int]:
    b = text.encode("utf-16-le", "surrogatepass")
    return [b[i] | (b[i + 1] << 8) for i in range(0, len(b), 2)]


def from_units(us) -> str:
    b = bytearray()
    for u in us:
        b.append(u & 0xFF)
        b.append(u >> 8)
    return bytes(b).decode("utf-16-le", "surrogatepass")


def ulen(text: str) -> int:
    return len(text.encode("utf-16-le", "surrogatepass")) // 2


def node_tokens(model, node: dict, out: list) -> None:
    tname = node["type"]
    if tname == "text":
        mk = marks_key(node.get("marks"))
        for u in units(node["text"]):
            out.append(("t", u, mk))
        return
    t = model.types[tname]
    ak = jkey(node.get("attrs") or {})
    mk = marks_key(node.get("marks"))
    if t.is_leaf:
        out.append(("l", tname, ak, mk))
        return
    out.append(("o", tname, ak, mk))
    for ch in node.get("content") or []:
        node_tokens(model, ch, out)
    out.append(("c",))


def content_tokens(model, nodes) -> list:
    out: list = []
    for n in nodes or []:
        node_tokens(model, n, out)
    return out


def doc_tokens(model, doc: dict) -> list:
    """Tokens of the document's content (positions 0..size index into this list)."""
    return content_tokens(model, doc.get("content"))


def typed(tokens: list) -> list:
    """Typed-close view: every close token repeats the markup of the open it closes."""
    out = []
    stack = []
    for tk in tokens:
        if tk[0] == "o":
            stack.append(tk)
            out.append(tk)
        elif tk[0] == "c":
            if stack:
                o = stack.pop()
                out.append(("c", o[1], o[2], o[3]))
            else:
                out.append(tk)
        else:
            out.append(tk)
    return out


def node_size(model, node: dict) -> int:
    if node["type"] == "text":
        return ulen(node["text"])
    if model.types[node["type"]].is_leaf:
        return 1
    return 2 + sum(node_size(model, c) for c in node.get("content") or [])


def content_size(model, nodes) -> int:
    return sum(node_size(model, c) for c in nodes or [])


def depth_at(tokens: list, pos: int) -> int:
    d = 0
    for tk in tokens[:pos]:
        if tk[0] == "o":
            d += 1
        elif tk[0] == "c":
            d -= 1
    return d


def balanced_profile(tokens: list):
    """(min_depth, final_depth) of a token string relative to its start."""
    d = 0
    lo = 0
    for tk in tokens:
        if tk[0] == "o":
            d += 1
        elif tk[0] == "c":
            d -= 1
            lo = min(lo, d)
    return lo, d


def parse_content(tokens: list):
    """Token list -> list of JSON nodes (adjacent same-mark text merged).

    Returns None if the list is not balanced."""
    stack = [[]]
    opens = []
    text_run = None  # (marks_key, [units])

    def flush():
        nonlocal text_run
        if text_run is not None:
            mk, us = text_run
            n = {"type": "text", "text": from_units(us)}
            marks = json.loads(mk)
            if marks:
                n["marks"] = marks
            stack[-1].append(n)
            text_run = None

    for tk in tokens:
        k = tk[0]
        if k == "t":
            if text_run is not None and text_run[0] == tk[2]:
                text_run[1].append(tk[1])
            else:
                flush()
                text_run = (tk[2], [tk[1]])
            continue
        flush()
        if k == "l":
            n = {"type": tk[1]}
            a = json.loads(tk[2])
            if a:
                n["attrs"] = a
            m = json.loads(tk[3])
            if m:
                n["marks"] = m
            stack[-1].append(n)
        elif k == "o":
            opens.append(tk)
            stack.append([])
        else:
            if not opens:
                return None
            o = opens.pop()
            kids = stack.pop()
            n = {"type": o[1]}
            a = json.loads(o[2])
            if a:
                n["attrs"] = a
            if kids:
                n["content"] = kids
            m = json.loads(o[3])
            if m:
                n["marks"] = m
            stack[-1].append(n)
    flush()
    if opens:
        return None
    return stack[0]


def leaf_seq(tokens: list, with_marks=True) -> list:
    """Sequence of text units and leaf nodes (the 'content' of a document)."""
    out = []
    for tk in tokens:
        if tk[0] == "t":
            out.append(tk if with_marks else ("t", tk[1]))
        elif tk[0] == "l":
            out.append(tk if with_marks else ("l", tk[1], tk[2]))
    return out


def normalize_json(model, node: dict) -> dict:
    """Canonical JSON of a node: keys as the library's to_json() would emit them."""
    out = {"type": node["type"]}
    if node["type"] == "text":
        if node.get("marks"):
            out["marks"] = node["marks"]
        out["text"] = node["text"]
        return out
    if node.get("attrs"):
        out["attrs"] = node["attrs"]
    if node.get("content"):
        out["content"] = [normalize_json(model, c) for c in node["content"]]
    if node.get("marks"):
        out["marks"] = node["marks"]
    return out


def selftest(model, docs) -> int:
    n = 0
    for d in docs:
        tk = doc_tokens(model, d)
        assert len(tk) == content_size(model, d.get("content")), d
        back = parse_content(tk)
        assert jkey(back) == jkey([normalize_json(model, c) for c in d.get("content") or []]), d
        n += 1
    return n
