"""Reference model of step maps and mappings (no prosemirror import).

A map is described by `ranges` = flat [start, old, new, ...] plus an `inverted` flag; the reference first
normalises it into a list of (start, old, new) triples in the coordinates of the document the map is
applied *to* (for an inverted map the roles of old/new swap and starts shift by the accumulated size
difference), then applies the documented rule.
"""

from __future__ import annotations


def normalize(ranges, inverted=False):
    tr = [(ranges[i], ranges[i + 1], ranges[i + 2]) for i in range(0, len(ranges), 3)]
    if not inverted:
        return tr
    out = []
    shift = 0
    for s, o, n in tr:
        out.append((s + shift, n, o))
        shift += n - o
    return out


def map_result(tr, pos, assoc):
    """Returns dict(pos, deleted, deleted_before, deleted_after, deleted_across, index, offset, at)
    `index`/`offset`: the range that decided and the offset into it (None when outside all ranges)."""
    diff = 0
    for idx, (start, old, new) in enumerate(tr):
        if start > pos:
            break
        end = start + old
        if pos <= end:
            if old == 0:
                side = assoc
            elif pos == start:
                side = -1
            elif pos == end:
                side = 1
            else:
                side = assoc
            res = start + diff + (0 if side < 0 else new)
            return {
                "pos": res,
                "range": idx,
                "offset": pos - start,
                "old": old,
                "deleted_before": pos > start,
                "deleted_after": pos < end,
                "deleted_across": start < pos < end,
                "deleted": (pos != start) if assoc < 0 else (pos != end),
                "has_recover": pos != (start if assoc < 0 else end),
            }
        diff += new - old
    return {"pos": pos + diff, "range": None}


def map_pos(tr, pos, assoc):
    return map_result(tr, pos, assoc)["pos"]


def for_each(tr):
    out = []
    diff = 0
    for start, old, new in tr:
        out.append((start, start + old, start + diff, start + diff + new))
        diff += new - old
    return out


def touches(tr, pos, idx):
    """Does pos lie in (or at the border of) range idx, by the scan rule of the documentation?"""
    for i, (start, old, new) in enumerate(tr):
        if start > pos:
            break
        if pos <= start + old and i == idx:
            return True
    return False


def fold(maps, pos, assoc):
    for tr in maps:
        pos = map_pos(tr, pos, assoc)
    return pos


def mirror_of(pairs, n):
    for a, b in pairs:
        if a == n:
            return b
        if b == n:
            return a
    return None


def map_with_mirrors(maps, pairs, pos, assoc, frm=0, to=None):
    """Pipeline mapping with mirror jumps: when a map deletes the position (recover available) and has a
    mirror later inside the window, jump behind the mirror and restore the offset into the mirrored range."""
    if to is None:
        to = len(maps)
    i = frm
    while i < to:
        tr = maps[i]
        r = map_result(tr, pos, assoc)
        if r["range"] is not None and r["has_recover"]:
            corr = mirror_of(pairs, i)
            if corr is not None and i < corr < to:
                # position inside mirrored range `range` of the mirror map, same offset
                mtr = maps[corr]
                # the mirror of tr is its inverse: range k of the inverse starts, in the inverse's *output*
                # coordinates, where range k of tr started in tr's input coordinates.
                start_out = for_each(mtr)[r["range"]][2]
                pos = start_out + r["offset"]
                i = corr + 1
                continue
        pos = r["pos"]
        i += 1
    return pos
