"""./check <ID> [--tier quick|thorough] [--seed N] [--replay FILE] [--procs N]"""

from __future__ import annotations

import argparse
import importlib
import json
import os
import sys
import time


def main(argv=None):
    ap = argparse.ArgumentParser()
    ap.add_argument("prop")
    ap.add_argument("--tier", default=os.environ.get("VERIF_TIER", "quick"))
    ap.add_argument("--seed", type=int, default=None)
    ap.add_argument("--replay", default=None)
    ap.add_argument("--procs", type=int, default=None)
    ap.add_argument("--only", default=None, help="debug: run only units whose name contains this")
    a = ap.parse_args(argv)
    tier = a.tier if a.tier in ("quick", "thorough") else "quick"
    seed = a.seed
    if seed is None:
        try:
            seed = int(os.environ.get("VERIF_SEED", "0"))
        except ValueError:
            seed = 0
    os.environ.setdefault("PYTHONHASHSEED", "0")
    sys.setrecursionlimit(3000)
    import warnings

    warnings.filterwarnings("ignore")

    from . import engine, known

    pid = a.prop.upper()
    mod = importlib.import_module(f"pmc.props.{pid.lower()}")

    if a.replay:
        body = json.load(open(a.replay))
        obs = []
        for _ in range(2):
            vs = mod.replay(body["case"])
            obs.append(json.dumps([v.to_dict() for v in vs], sort_keys=True, default=repr))
        if obs[0] != obs[1]:
            print("REPLAY-NONDETERMINISTIC property=%s" % pid)
            return 2
        vs = mod.replay(body["case"])
        if vs:
            for v in vs:
                print(f"REPLAY-VIOLATION property={pid} clause={v.clause} observed={str(v.observed)[:300]}")
            print(f"VIOLATION property={pid} replay={os.path.abspath(a.replay)}")
            return 1
        print(f"REPLAY-OK property={pid} (case no longer violates)")
        return 0

    if a.only:
        orig_units = mod.units
        mod.units = lambda t, s: [u for u in orig_units(t, s) if a.only in u.get("name", "")]

    t0 = time.time()
    merged = engine.run_property(mod, tier, seed, a.procs)
    desc = mod.describe() if hasattr(mod, "describe") else {}

    known_seen = []
    for kid, n in sorted(merged.known.items()):
        print(f"KNOWN-FINDING: property={pid} {known.text_of(kid)} [{kid}; {n} cases]")
        known_seen.append({"id": kid, "cases": n})

    viols = sorted(merged.violations, key=lambda v: (v.size, v.fingerprint))
    for v in viols[:25]:
        path = engine.write_replay(pid, v, {"tier": tier, "seed": seed})
        print(f"  clause={v.clause} fingerprint={v.fingerprint} observed={str(v.observed)[:240]}")
        print(f"VIOLATION property={pid} replay={path}")
    engine.write_evidence(pid, tier, seed, merged, desc, len(viols), known_seen)
    print(
        f"{pid} tier={tier} seed={seed} states={merged.states} transitions={merged.transitions} "
        f"validated={merged.validated} violations={len(viols)} wall={time.time() - t0:.1f}s"
    )
    return 1 if viols else 0


if __name__ == "__main__":
    sys.exit(main())
