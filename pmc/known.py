"""Known findings: genuine defects recorded rather than repaired.

/verif/KNOWN_FINDINGS.txt (committed, never written at run time) holds lines

    known: property=<id> clause=<clause> match=<predicate> :: <what fails>
    fixed: property=<id> <commit> <what failed>

A `known` entry suppresses a violation only if property and clause are equal AND the
named predicate (registered below) is true on the *failing case itself*; any other
violation of the same clause is still reported.  `fixed` entries suppress nothing.
"""

from __future__ import annotations

import os
import re

VERIF = os.path.dirname(os.path.dirname(os.path.abspath(__file__)))
PATH = os.path.join(VERIF, "KNOWN_FINDINGS.txt")

PREDICATES = {}


def predicate(name):
    def deco(fn):
        PREDICATES[name] = fn
        return fn

    return deco


_entries = None


def entries():
    global _entries
    if _entries is None:
        _entries = []
        if os.path.exists(PATH):
            for line in open(PATH):
                line = line.strip()
                m = re.match(r"known:\s+property=(\S+)\s+clause=(\S+)\s+match=(\S+)\s+::\s*(.*)", line)
                if m:
                    _entries.append({"property": m.group(1), "clause": m.group(2), "match": m.group(3),
                                     "text": m.group(4), "id": f"{m.group(1)}/{m.group(2)}/{m.group(3)}"})
    return _entries


def match(prop_id, clause, case, observed):
    for e in entries():
        if e["property"] == prop_id and e["clause"] == clause:
            fn = PREDICATES.get(e["match"])
            if fn is None:
                continue
            try:
                if fn(case, observed):
                    return e["id"]
            except Exception:  # noqa: BLE001  a broken predicate never suppresses
                continue
    return None


def text_of(entry_id):
    for e in entries():
        if e["id"] == entry_id:
            return e["text"]
    return ""


# ---------------------------------------------------------------------------
# predicates (each looks only at the failing case)


def _touching(ranges):
    for i in range(0, len(ranges) - 3, 3):
        if ranges[i] + ranges[i + 1] == ranges[i + 3]:
            return True
    return False


@predicate("palindrome-map-with-touching-ranges")
def _c08_touching(case, observed):
    """C08 mirror round trip: some map of the palindrome has two ranges that touch (gap 0)."""
    return case.get("kind") == "mapping" and any(_touching(m[0]) for m in case.get("maps", []))


@predicate("lift-needs-split")
def _c12_lift_split(case, observed):
    """C12: lift_target approved a lift that has to split an ancestor (the lifted range does not cover all
    children of every node it is lifted out of), and the split remnant does not fit next to the lifted content."""
    if case.get("helper") != "lift_target" or "Invalid content for node" not in str(observed):
        return False
    from .ref import positions as rp
    from .ref.schema_model import SchemaModel
    from . import adapters

    c = adapters.Ctx(case["schema"], case["spec"]) if case.get("spec") else adapters.ctx(case["schema"])
    ref = rp.RefDoc(c.model, case["doc"])
    a, b = ref.resolve(case["from"]), ref.resolve(case["to"])
    br = ref.block_range(a, b)
    if br is None:
        return False
    depth = br[0]
    target = case["target"]
    _ = SchemaModel
    for d in range(depth, target, -1):
        node = a["nodes"][d]
        start_i = a["index"][d]
        end_i = ref.index_after(b, d)
        if start_i > 0 or end_i < len(node.kids):
            return True
    return False
