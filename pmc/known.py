"""Known findings: genuine defects recorded rather than repaired.

/verif/KNOWN_FINDINGS.txt (committed, never written at run time) holds lines

    known: property=<id> clause=<clause> match=<predicate> :: <what fails>
    fixed: property=<id> <commit> <what failed>

A `known` entry suppresses a violation only if property and clause are equal AND the
named predicate (registered below) is true on the *failing case itself*; any other
violation of the same clause is still reported.  `fixed` entries suppress nothing.
"""

from __future__ import annotations

import os
import re

VERIF = os.path.dirname(os.path.dirname(os.path.abspath(__file__)))
PATH = os.path.join(VERIF, "KNOWN_FINDINGS.txt")

PREDICATES = {}


def predicate(name):
    def deco(fn):
        PREDICATES[name] = fn
        return fn

    return deco


_entries = None


def entries():
    global _entries
    if _entries is None:
        _entries = []
        if os.path.exists(PATH):
            for line in open(PATH):
                line = line.strip()
                m = re.match(r"known:\s+property=(\S+)\s+clause=(\S+)\s+match=(\S+)\s+::\s*(.*)", line)
                if m:
                    _entries.append({"property": m.group(1), "clause": m.group(2), "match": m.group(3),
                                     "text": m.group(4), "id": f"{m.group(1)}/{m.group(2)}/{m.group(3)}"})
    return _entries


def match(prop_id, clause, case, observed):
    for e in entries():
        if e["property"] == prop_id and e["clause"] == clause:
            fn = PREDICATES.get(e["match"])
            if fn is None:
                continue
            try:
                if fn(case, observed):
                    return e["id"]
            except Exception:  # noqa: BLE001  a broken predicate never suppresses
                continue
    return None


def text_of(entry_id):
    for e in entries():
        if e["id"] == entry_id:
            return e["text"]
    return ""


# ---------------------------------------------------------------------------
# predicates (each looks only at the failing case)


def _touching(ranges):
    for i in range(0, len(ranges) - 3, 3):
        if ranges[i] + ranges[i + 1] == ranges[i + 3]:
            return True
    return False


@predicate("palindrome-map-with-touching-ranges")
def _c08_touching(case, observed):
    """C08 mirror round trip: some map of the palindrome has two ranges that touch (gap 0)."""
    return case.get("kind") == "mapping" and any(_touching(m[0]) for m in case.get("maps", []))


@predicate("lift-needs-split")
def _c12_lift_split(case, observed):
    """C12: lift_target approved a lift that has to split an ancestor (the lifted range does not cover all
    children of every node it is lifted out of), and the split remnant does not fit next to the lifted content."""
    if case.get("helper") != "lift_target" or "Invalid content for node" not in str(observed):
        return False
    from .ref import positions as rp
    from .ref.schema_model import SchemaModel
    from . import adapters

    c = adapters.Ctx(case["schema"], case["spec"]) if case.get("spec") else adapters.ctx(case["schema"])
    ref = rp.RefDoc(c.model, case["doc"])
    a, b = ref.resolve(case["from"]), ref.resolve(case["to"])
    br = ref.block_range(a, b)
    if br is None:
        return False
    depth = br[0]
    target = case["target"]
    _ = SchemaModel
    for d in range(depth, target, -1):
        node = a["nodes"][d]
        start_i = a["index"][d]
        end_i = ref.index_after(b, d)
        if start_i > 0 or end_i < len(node.kids):
            return True
    return False


def _c18_ctx(case):
    from . import adapters
    from .ref import tokens as tk

    c = adapters.ctx(case["schema"])
    T = tk.doc_tokens(c.model, case["doc"])
    o = case["isolating_node_at"]
    depth = 0
    cl = None
    for i in range(o, len(T)):
        if T[i][0] == "o":
            depth += 1
        elif T[i][0] == "c":
            depth -= 1
            if depth == 0:
                cl = i
                break
    return c, T, o, cl


@predicate("fitter-closes-isolating-node-for-foreign-content")
def _c18_fitter_split(case, observed):
    """C18: plain fitting (Transform.replace & co) of content one of whose top-level node types cannot come next
    (at the insertion point) in any node open between the isolating node and the insertion point: the fitter closes (splits) the
    isolating node to place it outside, as upstream's Fitter does (it only guards isolating nodes of the slice)."""
    op = case.get("op") or {}
    if op.get("op") not in ("replace", "replace_with", "insert", "replace_range", "replace_range_with"):
        return False
    from .ref import cexpr
    from .ref import slices as rsl

    c, T, o, cl = _c18_ctx(case)
    frm = op.get("from", op.get("pos"))
    stack = [t[1] for t in rsl.open_stack(T, frm)]
    iso_type = T[o][1]
    if iso_type not in stack:
        return False
    frontier = stack[len(stack) - 1 - stack[::-1].index(iso_type):]
    if "slice" in op:
        content = op["slice"].get("content") or []
        tops = []
        cur = content
        for _ in range(op["slice"].get("openStart", 0) + 1):
            tops.extend(n["type"] for n in cur)
            if not cur:
                break
            cur = cur[0].get("content") or []
    else:
        tops = [op["node"]["type"]]
    # state of every open node at the insertion point: its content expression derived by the children before it
    st = []
    prev = None
    for t in T[:frm]:
        if t[0] == "t" and prev is not None and prev[0] == "t" and prev[2] == t[2]:
            continue  # same text node
        prev = t
        if t[0] == "o":
            if st:
                st[-1][1] = cexpr.deriv(st[-1][1], t[1])
            st.append([t[1], c.model.types[t[1]].regex])
        elif t[0] == "c":
            st.pop()
        elif st:
            st[-1][1] = cexpr.deriv(st[-1][1], t[1] if t[0] == "l" else "text")
    states = [r for _, r in st[len(st) - len(frontier):]]
    for s in tops:
        if all(cexpr.deriv(r, s) == cexpr.EMPTY for r in states):
            return True
    return False


@predicate("replace-range-slice-closes-isolating-type")
def _c18_range_closing(case, observed):
    """C18: replace_range with a slice that is open at its start through a node of the isolating node's own type which
    is CLOSED inside the slice (it is not also the open end of the slice): the slice carries that node's closing token;
    fitted onto the document's node it closes it and what follows the range needs a new one."""
    op = case.get("op") or {}
    if op.get("op") != "replace_range":
        return False
    c, T, o, cl = _c18_ctx(case)
    iso_type = T[o][1]
    cur = op["slice"].get("content") or []
    open_end = op["slice"].get("openEnd", 0)
    on_end_spine = True  # is the start-spine node of this level also the (still open) end-spine node?
    for level in range(op["slice"].get("openStart", 0)):
        if not cur:
            break
        on_end_spine = on_end_spine and len(cur) == 1 and open_end > level
        if cur[0]["type"] == iso_type and not on_end_spine:
            return True  # opened at the slice's start, CLOSED inside the slice
        cur = cur[0].get("content") or []
    return False


@predicate("insert-point-leaves-isolating-node")
def _c18_insert_point(case, observed):
    """C18: replace_range_with(pos, pos, block node) at the very start or end of an isolating node's content:
    insert_point searches outwards for a place where the node fits and does not stop at isolating nodes."""
    op = case.get("op") or {}
    if op.get("op") != "replace_range_with" or op.get("from") != op.get("to"):
        return False
    c, T, o, cl = _c18_ctx(case)
    p = op["from"]
    return all(t[0] == "o" for t in T[o + 1: p]) or all(t[0] == "c" for t in T[p: cl])


def _node_marks_at(case):
    from . import adapters
    from .ref import positions as rp

    c = adapters.Ctx(case["schema"], case["spec"]) if case.get("spec") else adapters.ctx(case["schema"])
    ref = rp.RefDoc(c.model, case["doc"])
    n = ref.node_at(ref.root, case["step"]["pos"])
    return c, (n.marks if n is not None else [])


@predicate("add-node-mark-displaces-unrestorable")
def _c04_add_node_mark(case, observed):
    """C04: AddNodeMarkStep whose mark displaces marks that re-adding one mark cannot bring back: two or more
    displaced marks, or one displaced mark that does not itself exclude the new mark (asymmetric exclusion)."""
    st = case.get("step") or {}
    if st.get("stepType") != "addNodeMark":
        return False
    from .ref import marks as rmk

    c, marks = _node_marks_at(case)
    after = rmk.add(c.model, st["mark"], marks)
    displaced = [m for m in marks if not rmk.in_set(m, after)]
    if not displaced:
        return False
    return not (len(displaced) == 1 and c.model.mark_excludes(displaced[0]["type"], st["mark"]["type"]))


@predicate("remove-node-mark-among-same-type-marks")
def _c04_remove_node_mark(case, observed):
    """C04: RemoveNodeMarkStep on a node carrying several marks of the removed mark's type (a type that does not
    exclude itself): the inverse re-adds the mark after its same-rank siblings, so the order differs."""
    st = case.get("step") or {}
    if st.get("stepType") != "removeNodeMark":
        return False
    c, marks = _node_marks_at(case)
    return sum(1 for m in marks if m["type"] == st["mark"]["type"]) >= 2


@predicate("earlier-step-changes-container-of-later-range")
def _c17_retag(case, observed):
    """C17: after applying the earlier step alone, the chain of nodes (type, attrs, marks) that contain the later
    step's start position is different: the earlier step re-typed, split or unwrapped the container of the other
    step's range without touching its content (e.g. it replaced only the container's opening token, or inserted a
    close/open pair before the range), so the two edits are not independent although their ranges are separated."""
    from . import adapters
    from .ref import slices as rsl
    from .ref import tokens as tk

    c = adapters.ctx(case["schema"])
    T0 = tk.doc_tokens(c.model, case["doc"])

    def lo(sd):
        return sd["pos"] if "pos" in sd else sd["from"]

    a = adapters.build_step(c, case["a"])
    r = a.apply(c.node(case["doc"]))
    if r.doc is None:
        return False
    T1 = tk.doc_tokens(c.model, r.doc.to_json())
    blo = lo(case["b"])
    chain0 = rsl.open_stack(T0, blo)
    chain1 = rsl.open_stack(T1, blo + len(T1) - len(T0))
    return chain0 != chain1


def _ideal_apply(model, T, sd):
    """Token-level effect a step is meant to have, ignoring validity (reference splice)."""
    import json as _json

    from .ref import marks as rmk
    from .ref import slices as rsl

    k = sd["stepType"]
    if k == "replace":
        S = rsl.slice_tokens(model, sd.get("slice") or {"content": []})
        return T[: sd["from"]] + S + T[sd["to"]:]
    if k == "replaceAround":
        S = rsl.slice_tokens(model, sd.get("slice") or {"content": []})
        ins = sd["insert"]
        return T[: sd["from"]] + S[:ins] + T[sd["gapFrom"]: sd["gapTo"]] + S[ins:] + T[sd["to"]:]
    if k in ("addMark", "removeMark"):
        out = list(T)
        for i in range(sd["from"], min(sd["to"], len(T))):
            t = T[i]
            if t[0] in ("t", "l"):
                marks = _json.loads(t[-1])
                if k == "addMark":
                    marks = rmk.add(model, sd["mark"], marks)
                else:
                    marks = rmk.remove(sd["mark"], marks)
                out[i] = (*t[:-1], rsl.jkey(marks))
        return out
    return T


@predicate("combined-edit-is-schema-invalid")
def _c17_combined_invalid(case, observed):
    """C17: splicing BOTH edits into the token sequence (the outcome any rebasing aims at) gives a tree that is
    not schema-valid: the schema couples the two separated ranges (sibling order / count constraints of a common
    parent, or one edit changes the type of the node that contains the other), so no order of application can
    succeed."""
    from . import adapters
    from .ref import tokens as tk
    from .ref import validity

    c = adapters.ctx(case["schema"])
    d = case["doc"]
    T = tk.doc_tokens(c.model, d)
    T2 = _ideal_apply(c.model, T, case["b"])   # b lies after a: a's positions are unaffected
    T3 = _ideal_apply(c.model, T2, case["a"])
    content = tk.parse_content(T3)
    if content is None:
        return True
    nd = {k: v for k, v in d.items() if k != "content"}
    if content:
        nd["content"] = content
    return validity.node_problem(c.model, nd) is not None


@predicate("add-mark-skips-non-atom-inline-container")
def _c13_non_atom(case, observed):
    """C13: the range of an add_mark contains the opening token of an inline node that has content and is not an
    atom: AddMarkStep only marks atoms, so that node does not get the mark (while Transform.add_mark still strips
    the marks the new one excludes from it)."""
    op = case.get("op") or {}
    if op.get("op") not in ("add_mark", "add_mark_step"):
        return False
    from . import adapters
    from .ref import positions as rp

    c = adapters.Ctx(case["schema"], case["spec"]) if case.get("spec") else adapters.ctx(case["schema"])
    ref = rp.RefDoc(c.model, case["doc"])
    for n in ref.all_nodes():
        if n.parent is None or n.is_text or n.is_leaf:
            continue
        if n.tm.is_inline and not n.tm.atom and op["from"] <= n.pos < op["to"] and \
                c.model.allows_mark(n.parent.type, op["mark"]["type"]):
            return True
    return False


@predicate("add-mark-removal-reaches-nested-inline-content")
def _c13_nested_removal(case, observed):
    """C13: add_mark over an inline node N that has content and carries a mark X the new mark excludes: the
    RemoveMarkStep generated for N spans N's whole extent and RemoveMarkStep.apply strips X from every inline node
    in it, including a nested node D that keeps X by the rule (a mark of D excludes the new mark, or D's parent does
    not allow it, so D's own set is not supposed to change)."""
    op = case.get("op") or {}
    if op.get("op") != "add_mark":
        return False
    from . import adapters
    from .ref import marks as rmk
    from .ref import positions as rp

    c = adapters.Ctx(case["schema"], case["spec"]) if case.get("spec") else adapters.ctx(case["schema"])
    model = c.model
    ref = rp.RefDoc(model, case["doc"])
    new = op["mark"]

    def inside(n):
        return op["from"] < n.pos + n.size and n.pos < op["to"]

    for n in ref.all_nodes():
        if n.parent is None or n.is_text or n.is_leaf or not n.tm.is_inline or not inside(n):
            continue
        if not model.allows_mark(n.parent.type, new["type"]):
            continue
        after = rmk.add(model, new, n.marks)
        displaced = [m for m in n.marks if not rmk.in_set(m, after)]
        if not displaced:
            continue
        stack = list(n.kids)
        while stack:
            d = stack.pop()
            stack.extend(d.kids)
            if not inside(d):
                continue
            keeps = d.marks if not model.allows_mark(d.parent.type, new["type"]) else rmk.add(model, new, d.marks)
            if any(rmk.in_set(x, d.marks) and rmk.in_set(x, keeps) for x in displaced):
                return True
    return False


@predicate("clear-incompatible-removal-reaches-nested-inline-content")
def _c13_nested_clear(case, observed):
    """C13: set_block_type to a type that forbids a mark X carried by an inline child N that has content: the
    RemoveMarkStep(X) over N's extent also strips X from inline nodes nested in N (whose parent N allows X)."""
    op = case.get("op") or {}
    if op.get("op") != "set_block_type":
        return False
    from . import adapters
    from .ref import marks as rmk
    from .ref import positions as rp

    c = adapters.Ctx(case["schema"], case["spec"]) if case.get("spec") else adapters.ctx(case["schema"])
    model = c.model
    doc = case["doc"]
    if op.get("after"):  # second operation of a history: positions refer to the document with its first block doubled
        doc = {**doc, "content": [doc["content"][0], *doc["content"]]}
    ref = rp.RefDoc(model, doc)
    for n in ref.all_nodes():
        if n.parent is None or n.is_text or n.is_leaf or not n.tm.is_inline:
            continue
        blk = n.parent
        if not blk.tm.is_textblock or not (op["from"] <= blk.pos + blk.size and blk.pos <= op["to"]):
            continue
        bad = [m for m in n.marks if not model.allows_mark(op["type"], m["type"])]
        stack = list(n.kids)
        while stack:
            d = stack.pop()
            stack.extend(d.kids)
            if any(rmk.in_set(x, d.marks) for x in bad):
                return True
    return False
