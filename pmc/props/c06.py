"""C06 — a content expression and its compiled matcher accept exactly the same sequences (explorer E3).

Programs: all expression syntax trees up to a node bound.  For each, the real Schema compiles it and the
product of (ContentMatch state, reference Brzozowski derivative) is explored to closure: language
equivalence for child sequences of unbounded length is decided on the product automaton.
"""

from __future__ import annotations

import itertools

from .. import adapters, engine
from ..ref import cexpr
from ..universe import gen_expr
from . import common

PROPERTY_ID = "C06"

ALPHABETS = {
    # name: (atoms, node specs besides doc/text)
    "groups": (("a", "b", "c", "g"), {"a": {"group": "g"}, "b": {"group": "g"}, "c": {}}),
    "nogroups": (("a", "b"), {"a": {}, "b": {}}),
    # r is not generatable: its REQUIRED attribute is declared after one with a default
    "required": (("a", "r"), {"a": {}, "r": {"attrs": {"d": {"default": 0}, "x": {}}}}),
    "inline": (("t", "text"), {"t": {"inline": True}}),
    # a node type whose NAME is also used as a group name by other types: the exact name wins
    "namegroup": (("a", "b", "c"), {"a": {}, "b": {"group": "a"}, "c": {"group": "a x"}}),
    # group names that CONTAIN the group name used in the expression (g / gg / xg): only the exact word counts
    "subgroups": (("a", "b", "c", "g"), {"a": {"group": "g"}, "b": {"group": "gg"}, "c": {"group": "xg y"}}),
    # r is generatable: all its attributes have defaults, one of them an explicit None
    "defnone": (("a", "r"), {"a": {}, "r": {"attrs": {"d": {"default": None}, "e": {"default": 0}}}}),
}


def describe():
    return {
        "rule": "all expression syntax trees up to the node bound over each alphabet (with/without groups, with a "
                "non-generatable type, inline types), each compiled by the real Schema; per expression the product "
                "automaton (ContentMatch state x reference derivative) is explored to closure; plus every token "
                "string up to the length bound for the malformed-expression clause. non-trivial = distinct accepted "
                "expressions whose product has >= 2 states",
        "assumptions": [
            "expression size bounded (syntax-tree nodes), range bounds in {0,1,2}",
            "reference = Brzozowski derivatives with ACI normalisation (self-tested against brute force at start-up)",
            "{n,m} with m < n is outside the domain",
        ],
        "explanation": "E3 automaton-product exploration; equivalence decided on reachable state pairs, not sampled strings",
    }


def spec_for(alpha: str, expr: str) -> dict:
    atoms, extra = ALPHABETS[alpha]
    nodes = {"doc": {"content": expr}}
    nodes.update({k: dict(v) for k, v in extra.items()})
    nodes["text"] = {"group": "inline"}
    return {"nodes": nodes, "marks": {}}


def units(tier, seed):
    q = tier == "quick"
    out = []

    def add(alpha, k, unary, nb, tag=""):
        for b in range(nb):
            out.append({"kind": "trees", "alpha": alpha, "k": k, "unary": unary, "block": b, "nblocks": nb,
                        "name": f"trees/{alpha}/k={k}/{unary}#{b}/{nb}{tag}"})

    kmax = 5 if q else 6
    for k in range(1, kmax + 1):
        add("groups", k, "all", 1 if k < 4 else (4 if k == 4 else (32 if k == 5 else 256)))
    for k in range(1, (4 if q else 5) + 1):
        add("required", k, "all", 1 if k < 4 else (4 if k == 4 else 32))
        add("nogroups", k, "all", 1 if k < 4 else (2 if k == 4 else 16))
    for k in range(1, 4 if q else 5):
        add("inline", k, "all", 1 if k < 4 else 4)
        add("namegroup", k, "all", 1 if k < 4 else 4)
        add("subgroups", k, "all", 1 if k < 4 else 4)
        add("defnone", k, "all", 1 if k < 4 else 4)
    # deeper trees over the alphabet with a non-generatable type, ?,*,+ only (dead ends behind accepting states
    # need >= 6 syntax nodes, e.g. "a (a r)?")
    for k in range(5, (7 if q else 8) + 1):
        add("required", k, "basic", {5: 2, 6: 8, 7: 16, 8: 64}[k])
    if not q:
        add("required", 6, "all", 128)
    if not q:
        for k in (7,):
            add("nogroups", k, "basic", 64)
    else:
        extra = [("nogroups", 5, "all", 16), ("required", 5, "all", 32), ("nogroups", 6, "basic", 8),
                 ("inline", 4, "all", 4)]
        a = extra[seed % len(extra)]
        add(a[0], a[1], a[2], a[3], "/seed")
    out.append({"kind": "cross", "k": 3 if q else 4, "name": "cross-schema(same names, same expression text)"})
    if q:
        # all sequences of <= 4 items, plus one residue class (by seed) of the 5-item sequences
        for b in range(8):
            out.append({"kind": "flat", "n": 4, "block": b, "nblocks": 8, "name": f"flat<=4#{b}/8"})
        for b in range(4):
            out.append({"kind": "flat", "n": 5, "block": (seed % 64) * 4 + b, "nblocks": 256, "name": f"flat=5#{(seed % 64) * 4 + b}/256"})
    else:
        for b in range(64):
            out.append({"kind": "flat", "n": 5, "block": b, "nblocks": 64, "name": f"flat<=5#{b}/64"})
    L = 4 if q else 5
    nb = 16 if q else 128
    for b in range(nb):
        out.append({"kind": "malformed", "len": L, "block": b, "nblocks": nb, "name": f"malformed/len<={L}#{b}/{nb}"})
    return out


def compile_real(spec):
    """('ok', schema) | ('rejected', exc) | ('hang', None) — under the watchdog."""
    engine.kick(10)
    try:
        return ("ok", adapters.Schema(spec))
    except engine.Watchdog:
        return ("hang", None)
    except RecursionError as e:
        return ("rejected", e)
    except Exception as e:  # noqa: BLE001
        return ("rejected", e)


def ref_classify(alpha: str, expr: str):
    """('ok', model) | ('reject', reason) | ('domain', reason) from the reference recogniser."""
    from ..ref.schema_model import SchemaModel

    try:
        ast = cexpr.parse(expr)
    except cexpr.ExprSyntaxError as e:
        return ("reject", "syntax: " + str(e))
    spec = spec_for(alpha, expr)
    names = cexpr.names_of(ast)
    types = spec["nodes"]
    resolved = []
    for n in names:
        if n in types:
            resolved.append([n])
        else:
            grp = [t for t, s in types.items() if n in (s.get("group") or "").split(" ")]
            if not grp:
                return ("reject", "unknown name " + n)
            resolved.append(grp)
    kinds = {bool(types[t].get("inline")) or t == "text" for r in resolved for t in r}
    if len(kinds) > 1:
        return ("reject", "mixed inline and block")
    if _bad_range(ast):
        return ("domain", "{n,m} with m < n")
    model = SchemaModel(spec)
    r0 = model.types["doc"].regex
    alphabet = list(model.type_names)
    for r in cexpr.reachable(r0, alphabet):
        if not cexpr.nullable(r):
            live = cexpr.first(r)
            if all(not model.types[t].generatable for t in live):
                return ("reject", "dead end: only non-generatable " + ",".join(live))
    return ("ok", model)


def _bad_range(ast):
    if ast is None:
        return False
    k = ast[0]
    if k == "name":
        return False
    if k in ("seq", "choice"):
        return any(_bad_range(x) for x in ast[1])
    if k == "range" and ast[3] != -1 and ast[3] < ast[2]:
        return True
    return _bad_range(ast[1])


def check_expr(alpha: str, expr: str, res, want_product=True):
    """Compile `expr` with the real Schema, classify it with the reference, compare."""
    case = {"kind": "expr", "alpha": alpha, "expr": expr}
    res.transitions += 1
    cls = ref_classify(alpha, expr)
    if cls[0] == "domain":
        res.clause("c06.domain-excluded")
        return
    got = compile_real(spec_for(alpha, expr))
    res.validated += 1
    if got[0] == "hang":
        res.violate("c06.compile.hang", case, "Schema() did not terminate", cls[0], size=len(expr))
        return
    if cls[0] == "reject":
        res.clause("c06.malformed")
        if got[0] == "ok":
            res.violate("c06.malformed.accepted", case, "schema built", cls[1],
                        fingerprint="c06.malformed.accepted:" + cls[1].split(":")[0], size=len(expr))
        else:
            res.outcome("rejected:" + type(got[1]).__name__)
        return
    # legal expression
    if got[0] != "ok":
        res.violate("c06.legal.rejected", case, common.exc_str(got[1]), "legal expression",
                    fingerprint="c06.legal.rejected:" + common.exc_fp(got[1]), size=len(expr))
        return
    res.outcome("compiled")
    if want_product:
        product(alpha, expr, got[1], cls[1], res, case)


def product(alpha, expr, schema, model, res, case):
    """BFS over reachable (ContentMatch, derivative) pairs."""
    doc_t = schema.nodes["doc"]
    m0 = doc_t.content_match
    r0 = model.types["doc"].regex
    tnames = list(model.type_names)
    types = {n: schema.nodes[n] for n in tnames}
    seen = {(id(m0), r0): ()}
    keep = [m0]
    todo = [(m0, r0, ())]
    npairs = 0
    size = len(expr)
    # leafness / inline content of the compiled node type
    if doc_t.is_leaf != model.types["doc"].is_leaf:
        res.violate("c06.is_leaf", case, doc_t.is_leaf, model.types["doc"].is_leaf, size=size)
    if doc_t.inline_content != model.types["doc"].inline_content:
        res.violate("c06.inline_content", case, doc_t.inline_content, model.types["doc"].inline_content, size=size)
    while todo:
        m, r, path = todo.pop(0)
        npairs += 1
        res.states += 1
        if m.valid_end != cexpr.nullable(r):
            res.violate("c06.valid_end", {**case, "path": list(path)}, m.valid_end, cexpr.nullable(r), size=size)
        live = []
        for t in tnames:
            m2 = m.match_type(types[t])
            d = cexpr.deriv(r, t)
            res.transitions += 1
            if (m2 is None) != (d == cexpr.EMPTY):
                res.violate("c06.alive", {**case, "path": [*path, t]},
                            "dead" if m2 is None else "alive", "dead" if d == cexpr.EMPTY else "alive", size=size)
                continue
            if m2 is None:
                continue
            live.append(t)
            key = (id(m2), d)
            if key not in seen:
                seen[key] = (*path, t)
                keep.append(m2)
                todo.append((m2, d, (*path, t)))
        # edges enumerate exactly the live symbols, no duplicates
        try:
            edges = [m.edge(i).type.name for i in range(m.edge_count)]
        except Exception as e:  # noqa: BLE001
            res.violate("c06.edges.raises", {**case, "path": list(path)}, common.exc_str(e), size=size)
            edges = None
        if edges is not None and (sorted(edges) != sorted(live) or len(set(edges)) != len(edges)):
            res.violate("c06.edges", {**case, "path": list(path)}, edges, live, size=size)
        if edges is not None:
            try:
                m.edge(m.edge_count)
                res.violate("c06.edge.range", {**case, "path": list(path)}, "edge(edge_count) returned", size=size)
            except ValueError:
                pass
            except Exception as e:  # noqa: BLE001
                res.violate("c06.edge.range", {**case, "path": list(path)}, common.exc_str(e), "ValueError", size=size)
            gen = [t for t in edges if model.types[t].generatable]
            dt = m.default_type
            exp = gen[0] if gen else None
            if (dt.name if dt else None) != exp:
                res.violate("c06.default_type", {**case, "path": list(path)}, dt.name if dt else None, exp, size=size)
        # match_fragment agrees with iterated match_type
        frag = adapters.Fragment([_mk(types[t]) for t in path])
        mf = m0.match_fragment(frag)
        res.validated += 1
        if mf is not m:
            # the matcher may hold two equivalent state objects; compare behaviourally via the seen-table
            if mf is None or (id(mf), r) not in seen:
                res.violate("c06.match_fragment", {**case, "path": list(path)},
                            "None" if mf is None else "different state", size=size)
        # sub-range form match_fragment(frag, start, end)
        if path:
            mid = len(path) // 2
            a = m0.match_fragment(frag, 0, mid)
            b = a.match_fragment(frag, mid) if a is not None else None
            if b is not mf:
                res.violate("c06.match_fragment.range", {**case, "path": list(path)}, "split match differs", size=size)
            # ... and, on the very same fragment object that was just walked from its start, the walk that STARTS
            # at child s (the start state applied to the tail): alive exactly when the reference accepts the tail
            for st in range(1, len(path) + 1):
                got_t = m0.match_fragment(frag, st)
                want_t = cexpr.run(r0, list(path[st:]))
                res.transitions += 1
                if (got_t is None) != (want_t == cexpr.EMPTY):
                    res.violate("c06.match_fragment.offset", {**case, "path": list(path), "start": st},
                                "None" if got_t is None else "alive", "dead" if want_t == cexpr.EMPTY else "alive", size=size)
                    break
    # dead sequences: every one-symbol extension that the reference kills was checked above ('alive' clause)
    if npairs >= 2:
        res.nontrivial += 1
    res.clause("c06.product")
    res.outcome("product-states", npairs)


def _mk(t):
    if t.is_text:
        return t.schema.text("x")
    attrs = {n: 1 for n, a in t.attrs.items() if a.is_required} or None
    return t.create(attrs)


TOKENS = ["a", "b", "x", "t", "(", ")", "|", "+", "*", "?", "{", "}", "1", "2", ","]
# "wide" expressions: sequences of these items (NFAs with two-digit node numbers, many subset states)
FLAT_ITEMS = ["a", "b", "c", "c?", "a*", "b*", "b+", "a{2}", "c{2,}", "(a | b)", "(b c)?", "(a b | c){1,2}", "a{1,3}", "(c b){0,4}"]


def run_unit(u):
    res = engine.UnitResult(PROPERTY_ID)
    engine.arm()
    n = 0
    if u["kind"] == "flat":
        items = FLAT_ITEMS
        idx = 0
        for ln in range(1, u["n"] + 1):
            for combo in itertools.product(items, repeat=ln):
                if ln == u["n"] and idx % u["nblocks"] != u["block"]:
                    idx += 1
                    continue
                idx += 1
                if ln < u["n"] and u["block"] != 0:
                    continue
                expr = " ".join(combo)
                check_expr("groups", expr, res)
                n += 1
                if n == 30:
                    res.sample({"alphabet": "groups", "expr": expr})
        res.scopes.append({"unit": u["name"], "expressions": n, "completed": True})
    elif u["kind"] == "cross":
        atoms = ALPHABETS["groups"][0]
        for k in range(1, u["k"] + 1):
            for ast in gen_expr.trees(tuple(atoms), k, tuple(gen_expr.UNARY_BASIC)):
                expr = cexpr.render(ast)
                if "g" not in expr.split() and "g" not in expr.replace("(", " ").replace(")", " ").replace("*", " ").replace("+", " ").replace("?", " ").split():
                    continue
                for alpha in ("groups", "groups_b", "groups_c", "groups_none", "groups"):
                    check_expr(alpha, expr, res)
                    n += 1
        res.sample({"kind": "cross-schema", "alphabets": ["groups", "groups_b", "groups_c", "groups_none"], "expr": "g+ a"})
        res.scopes.append({"unit": u["name"], "compilations": n, "completed": True})
    elif u["kind"] == "trees":
        atoms = ALPHABETS[u["alpha"]][0]
        unary = tuple(gen_expr.UNARY_ALL if u["unary"] == "all" else gen_expr.UNARY_BASIC)
        tr = gen_expr.trees(tuple(atoms), u["k"], unary)
        for i in range(u["block"], len(tr), u["nblocks"]):
            ast = tr[i]
            expr = cexpr.render(ast)
            check_expr(u["alpha"], expr, res)
            n += 1
            if u["k"] <= 4:
                # redundant parentheses / whitespace variant must compile to the same language
                expr2 = "  " + cexpr.render(ast, paren_all=True).replace(" ", "  ") + " "
                if expr2.strip() != expr:
                    check_expr(u["alpha"], expr2, res)
                    n += 1
            if i == u["block"]:
                res.sample({"alphabet": u["alpha"], "expr": expr})
        res.scopes.append({"unit": u["name"], "expressions": n, "completed": True})
    else:
        L = u["len"]
        idx = 0
        for ln in range(0, L + 1):
            for toks in itertools.product(TOKENS, repeat=ln):
                if idx % u["nblocks"] == u["block"]:
                    expr = " ".join(toks)
                    check_expr("malformed", expr, res)
                    n += 1
                    if n == 50:
                        res.sample({"alphabet": "malformed", "expr": expr})
                idx += 1
        res.scopes.append({"unit": u["name"], "strings": n, "completed": True})
    engine.disarm()
    res.evaluations = n
    return res


ALPHABETS["malformed"] = (("a", "b", "t"), {"a": {}, "b": {}, "t": {"inline": True}})
# same node names as "groups", different meaning of the same expression text (group membership, inline-ness,
# required attributes) - used by the "cross" units, which compile them one after the other in one process
ALPHABETS["groups_b"] = (("a", "b", "c", "g"), {"a": {}, "b": {"group": "g"}, "c": {"group": "g"}})
ALPHABETS["groups_c"] = (("a", "b", "c", "g"), {"a": {"group": "g", "attrs": {"x": {}}}, "b": {}, "c": {"group": "g"}})
ALPHABETS["groups_none"] = (("a", "b", "c", "g"), {"a": {}, "b": {}, "c": {}})


def replay(case):
    res = engine.UnitResult(PROPERTY_ID)
    engine.arm()
    check_expr(case["alpha"], case["expr"], res)
    engine.disarm()
    return res.violations
