"""C10 — documents and their parts are immutable values (explorer E2 over a heap of live objects)."""

from __future__ import annotations

import copy
import itertools

from .. import adapters, engine, ops
from ..ref import tokens as tk
from ..universe import gen_steps
from . import common

PROPERTY_ID = "C10"
jkey = tk.jkey
A = adapters


def describe():
    return {
        "rule": "state = heap of live objects (documents, fragments, slices, marks, mark lists, steps, step maps, "
                "mappings, resolved positions, shared singletons) with the snapshot taken at birth; transitions = every "
                "public operation of the menu below applied to the SAME live objects (model queries, replace, fragment "
                "and mark-set operations, step apply/invert/map/merge, every Transform operation, mapping operations, "
                "JSON and DOM conversion) in forward and reverse menu order, so every ordered pair of operations meets; "
                "after every transition the snapshots of all root objects are compared, returned objects are kept in a "
                "ring and compared too. non-trivial = transitions that returned a new object (counted)",
        "assumptions": [
            "bounded scopes and pools; the ring keeps the last 48 returned objects",
            "accumulators (Transform, Mapping being appended to) may only grow: old contents must stay a prefix",
        ],
        "explanation": "E2 explicit-state exploration of operation histories over a shared heap with snapshot invariants",
    }


def units(tier, seed):
    q = tier == "quick"
    specs = [
        {"sid": "basic", "family": "blocks", "size": 4 if q else 5, "donor": ("blocks", 3)},
        {"sid": "basic", "family": "inline_s", "size": 4 if q else 5, "donor": ("inline_s", 3)},
        {"sid": "list", "family": "lists", "size": 10 if q else 12, "donor": ("lists", 8)},
        {"sid": "attrs", "family": "attrs", "size": 3 if q else 4, "donor": ("attrs", 3)},
        {"sid": "topmarks", "family": "topmarks", "size": 3 if q else 4, "donor": ("topmarks", 3)},
        {"sid": "basic", "family": "links", "size": 4 if q else 5, "donor": ("links", 3)},
        {"sid": "strict_hb", "family": "strict", "size": 9 if q else 10, "donor": ("strict", 9)},
    ]
    extra = [
        {"sid": "table", "family": "table", "size": 10 if q else 12, "donor": ("table", 10)},
        {"sid": "iso", "family": "iso", "size": 6 if q else 7, "donor": ("iso", 5)},
        {"sid": "struct", "family": "struct", "size": 5 if q else 6, "donor": ("struct", 5)},
        {"sid": "list", "family": "astral", "size": 4 if q else 5, "donor": ("astral", 4)},
    ]
    for sp in specs + extra:
        sp["offset"] = seed
    if q:
        specs.append(extra[seed % len(extra)])
    else:
        specs.extend(extra)
    out = common.doc_units(PROPERTY_ID, specs, per_scope_blocks=16)
    out.append({"kind": "mappings", "name": "mappings"})
    return out


# ---------------------------------------------------------------------------
# snapshots


def snap(x):
    """Value snapshot of any heap object."""
    if x is None or isinstance(x, (int, str, bool, float)):
        return x
    if isinstance(x, A.Node):
        return ["node", x.to_json()]
    if isinstance(x, A.Fragment):
        return ["fragment", x.to_json(), x.size, len(x.content)]
    if isinstance(x, A.Slice):
        return ["slice", x.content.to_json(), x.open_start, x.open_end]
    if isinstance(x, A.Mark):
        return ["mark", x.to_json()]
    if isinstance(x, A.Step):
        return ["step", A.step_desc(x)]
    if isinstance(x, A.StepMap):
        return ["stepmap", list(x.ranges), x.inverted]
    if isinstance(x, A.Mapping):
        return ["mapping", [[list(m.ranges), m.inverted] for m in x.maps[x.from_: x.to]], x.from_, x.to,
                _window_mirror(x)]
    if isinstance(x, A.pm_model.ResolvedPos):
        return ["rpos", x.pos, x.depth, x.parent_offset, [p if isinstance(p, int) else p.type.name for p in x.path]]
    if isinstance(x, list):
        return ["list", [snap(y) for y in x]]
    if isinstance(x, tuple):
        return ["tuple", [snap(y) for y in x]]
    if isinstance(x, dict):
        return ["dict", copy.deepcopy(x)]
    if isinstance(x, A.pm_transform.StepResult):
        return ["result", snap(x.doc), x.failed]
    return ["opaque", type(x).__name__]


def _window_mirror(m):
    if not m.mirror:
        return []
    out = []
    for i in range(0, len(m.mirror), 2):
        a, b = m.mirror[i], m.mirror[i + 1]
        if m.from_ <= a < m.to and m.from_ <= b < m.to:
            out.append([a, b])
    return out


class Heap:
    def __init__(self):
        self.roots = []   # (name, obj, snapshot key)
        self.ring = []    # (origin op, obj, snapshot key)
        self.ring_size = 16

    def add_root(self, name, obj):
        self.roots.append((name, obj, jkey(snap(obj))))

    def add(self, origin, obj):
        if obj is None or isinstance(obj, (int, str, bool, float)):
            return
        self.ring.append((origin, obj, jkey(snap(obj))))
        if len(self.ring) > self.ring_size:
            self.ring.pop(0)

    def verify(self, full=True):
        """[(name/origin, old snapshot, new snapshot)] of objects whose value changed.
        full=False: only the document root (first root) and the ring of returned objects."""
        bad = []
        for name, obj, k in (self.roots if full else self.roots[:3]):
            nk = jkey(snap(obj))
            if nk != k:
                bad.append((name, k, nk))
        for origin, obj, k in self.ring:
            nk = jkey(snap(obj))
            if nk != k:
                bad.append(("returned by " + str(origin), k, nk))
        return bad


def singletons(c):
    s = c.schema
    out = [
        ("Fragment.empty", A.Fragment.empty),
        ("Fragment.empty.content", A.Fragment.empty.content),
        ("Mark.none", A.Mark.none),
        ("Slice.empty", A.Slice.empty),
        ("StepMap.empty", A.StepMap.empty),
    ]
    for n, t in s.nodes.items():
        out.append((f"NodeType({n}).default_attrs", t.default_attrs))
        out.append((f"NodeType({n}).mark_set", [m.name for m in t.mark_set] if t.mark_set is not None else None))
    for n, m in s.marks.items():
        out.append((f"MarkType({n}).instance", m.instance))
        out.append((f"MarkType({n}).excluded", [x.name for x in m.excluded]))
    return out


# ---------------------------------------------------------------------------
# the operation menu (closures over shared live objects)


def build_menu(c, sc, node, pool_sl, u):
    """[(description, thunk)] - thunk() returns the objects the operation produced (any value / list)."""
    model, schema = c.model, c.schema
    n = node.content.size
    live_slices = [(sl, c.slice(sl)) for sl in pool_sl]
    nodes_j = []
    for sl in pool_sl:
        if sl["openStart"] == 0 and sl["openEnd"] == 0 and len(sl["content"]) == 1 and sl["content"][0]["type"] != "text":
            nodes_j.append(sl["content"][0])
    nodes_j = nodes_j[:4]
    live_nodes = [(j, c.node(j)) for j in nodes_j]
    marks_j = gen_steps.schema_marks(model, 3)
    live_marks = [(m, c.mark(m)) for m in marks_j]
    mark_lists = [[], *[[lm] for _, lm in live_marks]]
    if len(live_marks) >= 2:
        mark_lists.append(A.Mark.set_from([live_marks[0][1], live_marks[1][1]]))
    R = [(a, b) for a in range(n + 1) for b in range(a, n + 1)]
    shared = {"slices": [x[1] for x in live_slices], "nodes": [x[1] for x in live_nodes],
              "marks": [x[1] for x in live_marks], "mark_lists": mark_lists}
    menu = []

    def add(desc, fn):
        menu.append((desc, fn))

    # A. model queries
    for p in range(n + 1):
        def q(p=p):
            r = node.resolve(p)
            out = [r, r.node_before, r.node_after, r.marks(), r.block_range(), r.parent, r.index(), r.text_offset]
            for d in range(r.depth + 1):
                out.extend([r.node(d), r.start(d), r.end(d)])
            out.append(node.node_at(p))
            out.append(node.child_after(p)["node"])
            out.append(node.child_before(p)["node"])
            return out
        add({"op": "resolve+accessors", "pos": p}, q)

        def across(p=p):
            r = node.resolve(p)
            out = []
            for e in range(n + 1):
                r2 = node.resolve(e)
                out.append(r.marks_across(r2))
                out.append(r.shared_depth(e))
                out.append(r.block_range(r2))
            return out
        add({"op": "marks_across/block_range(all ends)", "pos": p}, across)
    for a, b in R:
        add({"op": "slice", "from": a, "to": b}, lambda a=a, b=b: node.slice(a, b))
        add({"op": "cut", "from": a, "to": b}, lambda a=a, b=b: [node.cut(a, b), node.content.cut(a, b)])
        add({"op": "text_between", "from": a, "to": b}, lambda a=a, b=b: node.text_between(a, b, "|", "*"))

        def nb(a=a, b=b):
            got = []
            node.nodes_between(a, b, lambda nd, pos, par, i: got.append(nd) or None)
            return got
        add({"op": "nodes_between", "from": a, "to": b}, nb)
        for mj, lm in live_marks[:2]:
            add({"op": "range_has_mark", "from": a, "to": b, "mark": mj}, lambda a=a, b=b, lm=lm: node.range_has_mark(a, b, lm))
    add({"op": "check"}, lambda: node.check())
    add({"op": "to_json/from_json"}, lambda: [node.to_json(), A.Node.from_json(schema, node.to_json())])
    add({"op": "eq(copy)"}, lambda: node.eq(A.Node.from_json(schema, node.to_json())))

    def strip(j):
        j = dict(j)
        if "attrs" in j and not model.types[j["type"]].required_attrs:
            del j["attrs"]
        if "content" in j:
            j["content"] = [strip(k) for k in j["content"]]
        return j

    def edit_json():
        """The JSON values handed out belong to the caller: editing them in place must not reach any document
        (incl. nodes created with default attributes, which share NodeType.default_attrs)."""
        from .c05 import deep_mutate

        bare = A.Node.from_json(schema, strip(node.to_json()))
        for x in (node, bare, *[ls for _, ls in live_slices[:6]], *[lm for _, lm in live_marks]):
            j = x.to_json()
            if j is not None:
                deep_mutate(j)
        return [bare]
    add({"op": "to_json, caller edits the returned value in place"}, edit_json)
    add({"op": "text_content"}, lambda: node.text_content)
    add({"op": "descendants"}, lambda: node.descendants(lambda *a: None))
    add({"op": "diff(self)"}, lambda: [node.content.find_diff_start(A.Node.from_json(schema, node.to_json()).content),
                                       node.content.find_diff_end(A.Node.from_json(schema, node.to_json()).content)])
    # B. Node.replace with shared slices; can_replace with shared fragments
    for a, b in R:
        for sj, ls in live_slices:
            def rep(a=a, b=b, ls=ls):
                try:
                    return node.replace(a, b, ls)
                except ValueError:
                    return None
            add({"op": "Node.replace", "from": a, "to": b, "slice": sj}, rep)
    # C. fragment operations on the document's own fragments and the shared ones
    frags = [("doc.content", node.content)]
    for i in range(node.child_count):
        if not node.child(i).is_text and not node.child(i).is_leaf:
            frags.append((f"doc.child({i}).content", node.child(i).content))
    for sj, ls in live_slices[:4]:
        frags.append(("slice.content", ls.content))
    for (fa, fx), (fb, fy) in itertools.product(frags, frags):
        add({"op": "Fragment.append", "a": fa, "b": fb}, lambda fx=fx, fy=fy: fx.append(fy))
    for fa, fx in frags:
        for i in range(fx.child_count):
            for nj, ln in live_nodes[:3]:
                add({"op": "Fragment.replace_child", "of": fa, "index": i, "node": nj},
                    lambda fx=fx, i=i, ln=ln: fx.replace_child(i, ln))
            add({"op": "Fragment.replace_child(same)", "of": fa, "index": i}, lambda fx=fx, i=i: fx.replace_child(i, fx.child(i)))
            add({"op": "Fragment.cut_by_index", "of": fa, "index": i}, lambda fx=fx, i=i: [fx.cut_by_index(0, i), fx.cut_by_index(i)])
        for nj, ln in live_nodes[:3]:
            add({"op": "Fragment.add_to_start/end", "of": fa, "node": nj}, lambda fx=fx, ln=ln: [fx.add_to_start(ln), fx.add_to_end(ln)])
        for a in range(fx.size + 1):
            add({"op": "Fragment.cut", "of": fa, "from": a}, lambda fx=fx, a=a: [fx.cut(a), fx.cut(0, a)])
        arr = list(fx.content)
        add({"op": "Fragment.from_array(list(content))", "of": fa}, lambda arr=arr: [A.Fragment.from_array(arr), A.Fragment.from_(arr), arr])
        add({"op": "Fragment.to_json/from_json", "of": fa}, lambda fx=fx: A.Fragment.from_json(schema, fx.to_json()))
    # text arrays that need merging: from_array must not touch the input list
    tj = [x for x, _ in live_slices if x["content"] and x["content"][0]["type"] == "text"]
    if tj:
        t1 = c.node(tj[0]["content"][0])
        arr2 = [t1, t1.with_text(t1.text + "z") if hasattr(t1, "with_text") else t1, t1]
        add({"op": "Fragment.from_array(mergeable text)"}, lambda: [A.Fragment.from_array(arr2), arr2])
    # arrays with two separate join runs built from SHARED text nodes (the second run starts with a caller's node)
    if model.mark_names:
        m0 = c.mark(gen_steps.schema_marks(model, 1)[0])
        tp1, tp2 = schema.text("p"), schema.text("q")
        tm1, tm2 = schema.text("r", [m0]), schema.text("s", [m0])
        shared["text_nodes"] = [tp1, tp2, tm1, tm2]
        for arr_names in (("p", "q", "r", "s"), ("r", "s", "p", "q"), ("p", "q", "r", "s", "p", "q")):
            pick = {"p": tp1, "q": tp2, "r": tm1, "s": tm2}
            arr3 = [pick[x] for x in arr_names]
            shared.setdefault("arrays", []).append(arr3)
            add({"op": "Fragment.from_array(two join runs, shared nodes)", "array": list(arr_names)},
                lambda arr3=arr3: [A.Fragment.from_array(arr3), A.Fragment.from_(arr3)])
    # D. mark sets
    for mj, lm in live_marks:
        for ml in mark_lists:
            add({"op": "Mark.add_to_set", "mark": mj, "set": A.marks_json(ml)}, lambda lm=lm, ml=ml: [lm.add_to_set(ml), ml])
            add({"op": "Mark.remove_from_set", "mark": mj, "set": A.marks_json(ml)}, lambda lm=lm, ml=ml: [lm.remove_from_set(ml), ml])
            add({"op": "MarkType.remove_from_set", "mark": mj}, lambda lm=lm, ml=ml: [lm.type.remove_from_set(ml), ml])
    for ml in mark_lists:
        rev = list(reversed(ml))
        add({"op": "Mark.set_from(reversed list)", "set": A.marks_json(ml)}, lambda rev=rev: [A.Mark.set_from(rev), rev])
        for tname in model.type_names[:6]:
            add({"op": "NodeType.allowed_marks", "type": tname, "set": A.marks_json(ml)},
                lambda ml=ml, tname=tname: [schema.nodes[tname].allowed_marks(ml), ml])
    # marking nodes of the document
    for i in range(node.child_count):
        for ml in mark_lists[:3]:
            add({"op": "Node.mark", "child": i, "set": A.marks_json(ml)}, lambda i=i, ml=ml: node.child(i).mark(ml))
    # E. steps (shared live step objects)
    step_descs = []
    for a, b in R[:: max(1, len(R) // 12)]:
        for sj, ls in live_slices[:4]:
            step_descs.append({"stepType": "replace", "from": a, "to": b, "slice": sj, "structure": False})
        for mj, lm in live_marks[:2]:
            step_descs.append({"stepType": "addMark", "from": a, "to": b, "mark": mj})
            step_descs.append({"stepType": "removeMark", "from": a, "to": b, "mark": mj})
    for p in range(n + 1):
        for mj, lm in live_marks[:1]:
            step_descs.append({"stepType": "addNodeMark", "pos": p, "mark": mj})
            step_descs.append({"stepType": "removeNodeMark", "pos": p, "mark": mj})
        for aname in list({a for t in model.types.values() for a in t.attrs})[:2]:
            step_descs.append({"stepType": "attr", "pos": p, "attr": aname, "value": {"k": [1]}})
    for aname in model.types[model.top].attrs[:1]:
        step_descs.append({"stepType": "docAttr", "attr": aname, "value": [1, {"x": 2}]})
    live_steps = [(sd, A.build_step(c, sd)) for sd in step_descs]
    shared["steps"] = [x[1] for x in live_steps]
    some_map = A.StepMap([0, 0, 1])
    some_mapping = A.Mapping([A.StepMap([0, 1, 0]), A.StepMap([1, 0, 2])])
    shared["maps"] = [some_map, some_mapping]
    for sd, st in live_steps:
        def run_step(st=st):
            out = []
            r = st.apply(node)
            out.append(r)
            out.append(st.get_map())
            try:
                out.append(st.invert(node))
            except Exception:  # noqa: BLE001
                pass
            out.append(st.map(some_map))
            out.append(st.map(some_mapping))
            out.append(st.to_json())
            out.append(A.Step.from_json(schema, st.to_json()))
            return out
        add({"op": "Step.apply/invert/map/to_json", "step": sd}, run_step)
    for (sd1, s1), (sd2, s2) in itertools.product(live_steps[:10], live_steps[:10]):
        add({"op": "Step.merge", "s1": sd1, "s2": sd2}, lambda s1=s1, s2=s2: s1.merge(s2))
    # F. Transform operations with shared payload objects (two operations per Transform: accumulator prefix rule)
    pools = ops.default_pools(c, sc, pool_sl, 6, max_nodes=3, offset=u.get("offset", 0))
    pools["marks"] = pools["marks"][:2]
    tmenu = list(ops.enumerate_ops(model, n, pools))
    for op in tmenu:
        def trop(op=op):
            tr = A.Transform(node)
            try:
                ops.apply_op(c, tr, op)
            except (ValueError, ops.NotEnabled):
                pass
            pre = (len(tr.steps), [jkey(x.to_json()) for x in tr.docs], [list(m.ranges) for m in tr.mapping.maps])
            try:
                tr.delete(0, min(1, tr.doc.content.size))
            except ValueError:
                pass
            post = (len(tr.steps), [jkey(x.to_json()) for x in tr.docs], [list(m.ranges) for m in tr.mapping.maps])
            if post[0] < pre[0] or post[1][: len(pre[1])] != pre[1] or post[2][: len(pre[2])] != pre[2]:
                raise AssertionError("accumulator-shrunk")
            return [tr.doc, *tr.docs, *tr.steps, tr.mapping]
        add({"op": "Transform", "menu_op": op}, trop)
    # with the shared live payloads (not rebuilt from JSON)
    for a, b in R[:: max(1, len(R) // 10)]:
        for sj, ls in live_slices[:5]:
            def tr_shared(a=a, b=b, ls=ls):
                tr = A.Transform(node)
                try:
                    tr.replace(a, b, ls)
                    tr.replace_range(a, b, ls)
                except ValueError:
                    pass
                return [tr.doc, *tr.steps]
            add({"op": "Transform.replace(shared slice)", "from": a, "to": b, "slice": sj}, tr_shared)
        for nj, ln in live_nodes[:3]:
            def tr_node(a=a, b=b, ln=ln):
                tr = A.Transform(node)
                try:
                    tr.replace_with(a, b, ln)
                    tr.insert(a, ln)
                    tr.replace_range_with(a, b, ln)
                except ValueError:
                    pass
                return [tr.doc, *tr.steps]
            add({"op": "Transform.replace_with(shared node)", "from": a, "to": b, "node": nj}, tr_node)
        for mj, lm in live_marks[:2]:
            def tr_mark(a=a, b=b, lm=lm):
                tr = A.Transform(node)
                try:
                    tr.add_mark(a, b, lm)
                    tr.remove_mark(a, b, lm)
                    tr.remove_mark(a, b, lm.type)
                except ValueError:
                    pass
                return [tr.doc, *tr.steps]
            add({"op": "Transform.add/remove_mark(shared mark)", "from": a, "to": b, "mark": mj}, tr_mark)
        if len(live_marks) >= 2 and b - a >= 2:
            def tr_mark2(a=a, b=b):
                """Several mark operations through ONE Transform on touching ranges: the steps and documents it
                recorded for the earlier calls are values handed out and must not change."""
                tr = A.Transform(node)
                mid = a + 1
                recorded = []
                for (x, y, mk) in ((a, mid, live_marks[0][1]), (mid, b, live_marks[1][1]), (a, b, live_marks[0][1])):
                    try:
                        tr.add_mark(x, y, mk)
                    except ValueError:
                        continue
                    now = [jkey(A.step_desc(st)) for st in tr.steps]
                    if now[: len(recorded)] != recorded:
                        raise AssertionError("accumulator-shrunk: a step recorded by an earlier add_mark call changed")
                    recorded = now
                return [tr.doc, *tr.steps]
            add({"op": "Transform.add_mark x3 (touching ranges, one Transform)", "from": a, "to": b}, tr_mark2)
    # H. DOM round trip
    def dom():
        from prosemirror.model import DOMParser, DOMSerializer

        ser = DOMSerializer.from_schema(schema)
        html = str(ser.serialize_fragment(node.content))
        try:
            parsed = DOMParser.from_schema(schema).parse(adapters_html(html))
        except Exception:  # noqa: BLE001
            parsed = None
        return [html, parsed]
    def dom_only():
        from prosemirror.model import DOMSerializer

        ser = DOMSerializer.from_schema(schema)
        return [str(ser.serialize_fragment(node.content))] + [str(ser.serialize_node(node.child(i))) for i in range(node.child_count)]

    def dom_nodes():
        """serialize_node on EVERY node of the document (marked inline nodes, pieces cut out of text nodes), twice."""
        from prosemirror.model import DOMSerializer

        ser = DOMSerializer.from_schema(schema)
        outs = []
        todo = [node.child(i) for i in range(node.child_count)]
        while todo:
            x = todo.pop()
            outs.append(str(ser.serialize_node(x)))
            outs.append(str(ser.serialize_node(x)))
            if x.is_text and x.node_size > 1:
                piece = x.cut(0, 1)
                outs.append(str(ser.serialize_node(piece)))
            todo.extend(x.child(i) for i in range(x.child_count))
        return outs
    def dom_abandoned():
        """A parse that is abandoned by an exception while nested, equal mark elements are open (a user getAttrs
        callback returns attrs the node type rejects), and one that completes: neither may leave anything behind in
        shared objects (Mark.none, the live document)."""
        from prosemirror.model.from_dom import DOMParser, ParseRule

        seen = []

        def img_attrs(dom_):
            seen.append(jkey(node.to_json()))  # a callback looking at the live document in mid-parse
            return {"src": dom_.get("src"), "alt": dom_.get("alt")}

        rules = [ParseRule.from_json({"tag": "img", "node": "image", "getAttrs": img_attrs, "priority": 60}),
                 *DOMParser.schema_rules(schema)]
        outs = []
        for html in ("<p><b><strong>x</strong> y</b> z</p>", "<p><em><i>x <img alt='n'> y</i></em></p>",
                     "<p><b><strong>pic: <img alt='no source'></strong></b></p>"):
            try:
                outs.append(DOMParser(schema, rules).parse(adapters_html(html)))
            except ValueError:
                pass
        before = jkey(node.to_json())
        if any(x != before for x in seen):
            raise AssertionError("mid-parse: live document serialised differently during a DOM parse")
        return outs
    if all(t.spec.get("toDOM") or t.is_text or t is schema.top_node_type for t in schema.nodes.values()) and \
            all(m.spec.get("toDOM") for m in schema.marks.values()):
        add({"op": "DOM serialise every node"}, dom_nodes)
    if c.id in ("basic", "list"):
        add({"op": "DOM parse abandoned inside nested marks"}, dom_abandoned)
        add({"op": "DOM serialise/parse"}, dom)
    elif all(t.spec.get("toDOM") or t.is_text or t is schema.top_node_type for t in schema.nodes.values()):
        add({"op": "DOM serialise"}, dom_only)
    return menu, shared


def adapters_html(html):
    from lxml import html as lhtml

    return lhtml.fragment_fromstring(html, create_parent="div")


def run_history(c, d, menu_builder, order, res, size):
    """Fresh heap; run the whole menu in the given order over the same live objects."""
    node = c.node(d)
    heap = Heap()
    heap.add_root("document", node)
    heap.add_root("document.content", node.content)
    heap.add_root("document.content.content(list)", node.content.content)
    for i in range(node.child_count):
        heap.add_root(f"document.child({i})", node.child(i))
        heap.add_root(f"document.child({i}).marks", node.child(i).marks)
        heap.add_root(f"document.child({i}).attrs", node.child(i).attrs)
    heap.add_root("document.attrs", node.attrs)
    for name, obj in singletons(c):
        heap.add_root(name, obj)
    menu, shared = menu_builder(node)
    for kind, objs in shared.items():
        for i, o in enumerate(objs):
            heap.add_root(f"shared {kind}[{i}]", o)
    seq = menu if order == "forward" else list(reversed(menu))
    window = []
    PERIOD = 16
    for step_no, (desc, fn) in enumerate(seq):
        engine.kick(20)
        res.transitions += 1
        window.append(desc)
        if len(window) > PERIOD + 1:
            window.pop(0)
        try:
            out = fn()
        except engine.Watchdog:
            res.violate("c10.hang", {"schema": c.id, "doc": d, "op": desc}, "watchdog", size=size)
            continue
        except AssertionError as e:
            if "accumulator-shrunk" in str(e):
                res.violate("c10.accumulator-not-append-only", {"schema": c.id, "doc": d, "op": desc}, str(e), size=size)
            elif "mid-parse" in str(e):
                res.violate("c10.mutated-during-parse", {"schema": c.id, "doc": d, "op": desc}, str(e), size=size)
            continue
        except Exception:  # noqa: BLE001  (errors are other properties' business)
            out = None
        full = (step_no % PERIOD == PERIOD - 1) or step_no == len(seq) - 1
        bad = heap.verify(full)
        res.validated += 1
        if bad:
            name, old, new = bad[0]
            res.violate("c10.mutated", {"schema": c.id, "doc": d, "order": order,
                                        "last_ops": list(window) if full else list(window[-2:]),
                                        "object": name}, new[:300], old[:300],
                        fingerprint="c10.mutated:" + name.split("[")[0].split("(")[0] + ":" + str(desc.get("op")), size=size)
            return
        if out is not None:
            res.nontrivial += 1
            if isinstance(out, list):
                for o in out:
                    heap.add(desc.get("op"), o)
            else:
                heap.add(desc.get("op"), out)


def check_mappings(res):
    """Mapping accumulators: sources, slices and copies keep their value while the original is appended to."""
    maps = [A.StepMap([0, 1, 2]), A.StepMap([1, 2, 0]), A.StepMap([0, 0, 1, 3, 1, 1]), A.StepMap([2, 1, 1]).invert()]
    heap = Heap()
    for i, m in enumerate(maps):
        heap.add_root(f"map[{i}]", m)
    heap.add_root("StepMap.empty", A.StepMap.empty)
    src = A.Mapping([maps[0], maps[1], maps[1].invert(), maps[0].invert()], [0, 3, 1, 2])
    heap.add_root("source mapping", src)
    acts = []
    for k in range(4):
        acts.append(("append_map", lambda m, k=k: m.append_map(maps[k])))
        acts.append(("append_map+mirror", lambda m, k=k: m.append_map(maps[k], 0) if m.maps else m.append_map(maps[k])))
    acts.append(("append_mapping", lambda m: m.append_mapping(src)))
    acts.append(("append_mapping_inverted", lambda m: m.append_mapping_inverted(src)))
    acts.append(("slice", lambda m: m.slice(0, len(m.maps) // 2)))
    acts.append(("slice1", lambda m: m.slice(1) if m.maps else m.slice()))
    acts.append(("slice-full", lambda m: m.slice(m.from_, m.to)))  # "the maps so far", kept while m grows
    acts.append(("copy", lambda m: m.copy()))
    acts.append(("invert", lambda m: m.invert()))
    acts.append(("map", lambda m: [m.map(2, 1), m.map_result(1, -1).pos]))
    # original / copy pairs: whatever is done to one must leave the other exactly as it was
    def state(mp):
        return jkey([[[list(x.ranges), x.inverted] for x in mp.maps], list(mp.mirror or []), mp.from_, mp.to])

    pair_acts = [a for a in acts if a[0] in ("append_map", "append_map+mirror", "append_mapping", "append_mapping_inverted")]
    for start_mirrored in (False, True):
        for seq in itertools.product(range(len(pair_acts)), ("M", "K"), repeat=2):
            if start_mirrored:
                M = A.Mapping([maps[0], maps[0].invert()], [0, 1])
            else:
                M = A.Mapping([maps[2]])
            K = M.copy()
            hist = []
            for i in range(0, len(seq), 2):
                idx, who = seq[i], seq[i + 1]
                name, fn = pair_acts[idx]
                hist.append([who, name])
                target, other = (M, K) if who == "M" else (K, M)
                before_other = state(other)
                res.transitions += 1
                try:
                    fn(target)
                except Exception as e:  # noqa: BLE001
                    res.violate("c10.mapping.raises", {"history": hist}, common.exc_str(e))
                    break
                res.validated += 1
                if state(other) != before_other:
                    res.violate("c10.mapping.copy-not-independent", {"history": hist, "start_mirrored": start_mirrored},
                                state(other)[:300], before_other[:300])
                    break
            res.states += 1
    n = 0
    for seq in itertools.product(range(len(acts)), repeat=3):
        m = A.Mapping([maps[2]])
        local = Heap()
        local.roots = list(heap.roots)
        prev_maps = None
        for idx in seq:
            name, fn = acts[idx]
            before = ([[list(x.ranges), x.inverted] for x in m.maps], list(m.mirror or []))
            res.transitions += 1
            try:
                out = fn(m)
            except Exception as e:  # noqa: BLE001
                res.violate("c10.mapping.raises", {"history": [acts[i][0] for i in seq]}, common.exc_str(e))
                break
            after = ([[list(x.ranges), x.inverted] for x in m.maps], list(m.mirror or []))
            if after[0][: len(before[0])] != before[0] or after[1][: len(before[1])] != before[1]:
                res.violate("c10.mapping.not-append-only", {"history": [acts[i][0] for i in seq]}, after, before)
                break
            if out is not None and not isinstance(out, list):
                local.add(name, out)
            bad = local.verify()
            res.validated += 1
            if bad:
                res.violate("c10.mapping.mutated", {"history": [acts[i][0] for i in seq], "object": bad[0][0]}, bad[0][2][:300],
                            bad[0][1][:300], fingerprint="c10.mapping.mutated:" + bad[0][0].split("[")[0])
                break
            _ = prev_maps
        n += 1
        res.states += 1
    res.sample({"mapping_histories": n, "actions": [a[0] for a in acts]})


def run_unit(u):
    res = engine.UnitResult(PROPERTY_ID)
    engine.arm()
    if u.get("kind") == "mappings":
        check_mappings(res)
        res.scopes.append({"unit": "mappings", "completed": True})
        engine.disarm()
        return res
    c, sc, docs = common.unit_docs(u)
    full = common.pool_slices(u["sid"], u["donor"][0], u["donor"][1])
    stride = max(1, len(full) // 10)
    pool_sl = [full[0], *full[1 + (u.get("offset", 0) % stride)::stride]][:12]
    nmenu = 0
    for d in docs:
        size = common.doc_size(c.model, d)
        res.states += 1
        for order in ("forward", "reverse"):
            run_history(c, d, lambda node: build_menu(c, sc, node, pool_sl, u), order, res, size)
        nmenu += 1
    engine.disarm()
    if docs:
        res.sample({"schema": c.id, "doc": docs[-1], "history": "whole operation menu over shared live objects, forward and reverse"})
    res.scopes.append({"unit": u["name"], "docs": len(docs), "pool_slices": len(pool_sl), "completed": True})
    res.evaluations = res.transitions
    return res


def replay(case):
    res = engine.UnitResult(PROPERTY_ID)
    if "doc" not in case:
        check_mappings(res)
        return res.violations
    c = adapters.ctx(case["schema"])
    from ..universe import scopes

    fam = scopes.families_for(case["schema"])[0]
    sc = scopes.scope(c.model, fam, case["schema"], 6)
    full = common.pool_slices(case["schema"], fam, 3)
    pool_sl = full[:12]
    engine.arm()
    for order in ("forward", "reverse"):
        run_history(c, case["doc"], lambda node: build_menu(c, sc, node, pool_sl, {}), order, res, 0)
    engine.disarm()
    return res.violations
