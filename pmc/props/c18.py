"""C18 — edits made inside an isolating node never reach outside it (explorer E1)."""

from __future__ import annotations

from .. import adapters, engine, ops
from ..ref import positions as rpos
from ..ref import tokens as tk
from . import common

PROPERTY_ID = "C18"
jkey = tk.jkey
structure = ops.structure


def describe():
    return {
        "rule": "isolating / table-like schema documents x every isolating node x every range with both ends inside "
                "it (incl. its whole content) x every pool slice / node x the seven replace-family operations; every "
                "block range inside -> lift_target; every position inside x depth -> can_split (+ performing approved "
                "edits); Slice.max_open on every pool fragment. non-trivial = operations that changed the document "
                "(counted)",
        "assumptions": [
            "bounded scopes over the iso and table schemas (isolating containers in lists/quotes, cells in tables in cells)",
            "oracle: tokens up to and including the node's open token and from its close token on are unchanged, "
            "and the two still delimit one balanced node",
        ],
        "explanation": "E1 exhaustive edits inside isolating nodes with a token-prefix/suffix oracle",
    }


def units(tier, seed):
    q = tier == "quick"
    specs = [
        {"sid": "iso", "family": "iso", "size": 8 if q else 10, "donor": ("iso", 7 if q else 8), "max_slices": 50 if q else 250},
        {"sid": "iso", "family": "iso_list", "size": 10 if q else 12, "donor": ("iso_list", 9), "max_slices": 50 if q else 250},
        {"sid": "table", "family": "table", "size": 14 if q else 20, "donor": ("table", 12 if q else 14), "max_slices": 50 if q else 250},
        {"sid": "iso_attr", "family": "iso_attr", "size": 8 if q else 10, "donor": ("iso_attr", 7), "max_slices": 40 if q else 200},
        {"sid": "iso_li", "family": "lists", "size": 12 if q else 14, "donor": ("lists", 10), "max_slices": 40 if q else 200},
    ]
    for sp in specs:
        sp["offset"] = seed
    out = common.doc_units(PROPERTY_ID, specs, per_scope_blocks=16)
    out.append({"kind": "max_open", "name": "max_open"})
    return out


def iso_nodes(model, T):
    """[(open_index, close_index, depth_inside)] of isolating nodes in a token list."""
    out = []
    st = []
    for i, t in enumerate(T):
        if t[0] == "o":
            st.append(i)
        elif t[0] == "c":
            o = st.pop()
            if model.types[T[o][1]].isolating:
                out.append((o, i, len(st) + 1))
    return sorted(out)


def raw_step_in_domain(model, T, o, frm, to, sl):
    """A raw ReplaceStep is a token splice (C02).  If the slice itself carries closing tokens that reach the isolating
    node (it closes more context nodes than are open between that node and `from`, or re-opens more than are open
    between it and `to`), splitting the node is what the step SAYS - only slices that stay inside are in the domain."""
    inner = tk.content_tokens(model, sl["content"])
    inner = inner[sl["openStart"]: len(inner) - sl["openEnd"]]
    depth = lo = 0
    for t in inner:
        if t[0] == "o":
            depth += 1
        elif t[0] == "c":
            depth -= 1
            lo = min(lo, depth)
    closes_ctx, opens_ctx = -lo, depth - lo

    def rel(pos):
        dd = 0
        for t in T[o + 1: pos]:
            if t[0] == "o":
                dd += 1
            elif t[0] == "c":
                dd -= 1
        return dd

    return closes_ctx <= rel(frm) and opens_ctx <= rel(to)


def count_iso(model, T):
    return sorted(tk.jkey(t) for t in T if t[0] == "o" and model.types[t[1]].isolating)


def check_confined(model, T, T1, o, cl):
    """None if the node delimited by T[o]..T[cl] is intact in T1, else a reason."""
    n = len(T)
    pre = T[: o + 1]
    suf = T[cl:]
    if T1[: o + 1] != pre:
        return "tokens before / at the node's opening changed"
    if len(T1) < len(pre) + len(suf) or T1[len(T1) - len(suf):] != suf:
        return "tokens from the node's closing on changed"
    inner = T1[o + 1: len(T1) - len(suf)]
    lo, fin = tk.balanced_profile(inner)
    if lo < 0 or fin != 0:
        return "the node was split or merged (its open and close no longer delimit one node)"
    _ = n
    return None


def check_doc(c, sc, d, pools, res):
    model = c.model
    node = c.node(d)
    T = tk.doc_tokens(model, d)
    n = len(T)
    isos = iso_nodes(model, T)
    if not isos:
        return
    res.states += 1
    base = {"schema": c.id, "doc": d}
    iso_count = count_iso(model, T)
    for o, cl, depth_in in isos:
        # positions inside: o+1 .. cl
        for op in ops.enumerate_ops(model, n, pools, groups=("replace", "steps")):
            frm = op.get("from", op.get("pos"))
            to = op.get("to", op.get("pos"))
            if not (o + 1 <= frm <= to <= cl):
                continue
            if op["op"] == "replace_step" and not raw_step_in_domain(model, T, o, frm, to, op["slice"]):
                continue
            engine.kick(10)
            res.transitions += 1
            try:
                status, tr, exc = ops.run_op(c, node, op)
            except engine.Watchdog:
                res.violate("c18.hang", {**base, "op": op}, "watchdog", size=n)
                continue
            res.outcome(op["op"] + ":" + status)
            if status not in ("ok", "noop"):
                continue  # totality is C11's business
            if status == "ok":
                res.nontrivial += 1
            T1 = tk.doc_tokens(model, tr.doc.to_json())
            res.validated += 1
            why = check_confined(model, T, T1, o, cl)
            if why:
                clause = "c18.node-split-or-merged" if why.startswith("the node was split") else "c18.outside-changed"
                res.violate(clause, {**base, "op": op, "isolating_node_at": o}, why + " :: " + jkey(tr.doc.to_json())[:300],
                            fingerprint=clause + ":" + op["op"], size=n)
        # the same deletions as the SECOND operation of a Transform whose first step moved the isolating node
        # (positions are those of the current document, not of the document the Transform started from)
        if "paragraph" in c.schema.nodes:
            firsts = [("insert(0, paragraph)", lambda tr: tr.insert(0, c.schema.nodes["paragraph"].create()))]
            if o > 0:
                firsts.append((f"delete(0, {o})", lambda tr: tr.delete(0, o)))
            for fname, first in firsts:
                tr0 = adapters.Transform(node)
                try:
                    first(tr0)
                except Exception:  # noqa: BLE001
                    continue
                Tm = tk.doc_tokens(model, tr0.doc.to_json())
                shift = len(Tm) - n
                o2, cl2 = o + shift, cl + shift
                if not (0 <= o2 < len(Tm)) or Tm[o2] != T[o]:
                    continue
                for a in range(o2 + 1, cl2 + 1):
                    for b in range(a, cl2 + 1):
                        for opname in ("delete_range", "replace_range(empty)"):
                            tr = adapters.Transform(node)
                            first(tr)
                            res.transitions += 1
                            try:
                                if opname == "delete_range":
                                    tr.delete_range(a, b)
                                else:
                                    tr.replace_range(a, b, adapters.Slice.empty)
                            except ValueError:
                                continue
                            except Exception:  # noqa: BLE001
                                res.clause("c18.history.internal-error(reported by C11)")
                                continue
                            T1 = tk.doc_tokens(model, tr.doc.to_json())
                            res.validated += 1
                            why = check_confined(model, Tm, T1, o2, cl2)
                            if why:
                                res.violate("c18.history.leaked", {**base, "first": fname, "op": {"op": opname, "from": a, "to": b},
                                                                   "isolating_node_at": o}, why + " :: " + jkey(tr.doc.to_json())[:300],
                                            fingerprint="c18.history.leaked:" + opname, size=n)
        # lift targets and splits inside
        seen = set()
        seen_br = set()
        refdoc = rpos.RefDoc(model, d)
        for p in range(o + 1, cl + 1):
            rp = node.resolve(p)
            for q in range(p, cl + 1):
                try:
                    rng = rp.block_range(node.resolve(q))
                except Exception:  # noqa: BLE001
                    continue
                # the range the lift works on must be the block range of these two positions (both inside the
                # isolating node): a range that is too shallow makes the lift act on the node's surroundings
                try:
                    br = refdoc.block_range(refdoc.resolve(p), refdoc.resolve(q))
                except Exception:  # noqa: BLE001  (mid-pair positions)
                    br = None
                got3 = None if rng is None else (rng.depth, rng.start, rng.end)
                if br is not None and got3 != tuple(br[:3]) and (p, q) not in seen_br:
                    seen_br.add((p, q))
                    res.violate("c18.block_range", {**base, "helper": "block_range", "from": p, "to": q,
                                                    "isolating_node_at": o}, got3, list(br[:3]), size=n)
                if rng is None or rng.depth < depth_in:
                    continue
                key = (rng.depth, rng.start, rng.end, rp.depth == rng.depth, rng.to.depth == rng.depth)
                if key in seen:
                    continue
                seen.add(key)
                res.transitions += 1
                case = {**base, "helper": "lift_target", "from": p, "to": q, "isolating_node_at": o}
                try:
                    target = structure.lift_target(rng)
                except Exception as e:  # noqa: BLE001
                    res.clause("c18.lift_target.raises(reported by C12)")
                    _ = e
                    continue
                if target is not None and target < depth_in:
                    res.violate("c18.lift_target.crosses", case, target, f">= {depth_in} or None", size=n)
                if target is not None:
                    tr = adapters.Transform(node)
                    try:
                        tr.lift(rng, target)
                        T1 = tk.doc_tokens(model, tr.doc.to_json())
                        res.nontrivial += 1
                        if count_iso(model, T1) != iso_count:
                            res.violate("c18.lift.changed-isolating-nodes", case, jkey(tr.doc.to_json())[:300], size=n)
                        why = check_confined(model, T, T1, o, cl)
                        if why:
                            res.violate("c18.lift.leaked", case, why, size=n)
                    except ValueError:
                        pass
                    except Exception:  # noqa: BLE001
                        res.clause("c18.lift.internal-error(reported by C12)")
            D = rp.depth
            for depth in range(1, D + 1):
                res.transitions += 1
                case = {**base, "helper": "can_split", "pos": p, "depth": depth, "isolating_node_at": o}
                try:
                    ok = structure.can_split(node, p, depth)
                except Exception:  # noqa: BLE001
                    res.clause("c18.can_split.raises(reported by C12)")
                    continue
                crosses = D - depth < depth_in  # the isolating node itself (or something above it) would be split
                if ok and crosses:
                    res.violate("c18.can_split.crosses", case, ok, False, size=n)
                if crosses and depth >= 2:
                    # the same question with explicit after-types for every level (non-isolating ones)
                    for tname in ("blockquote", "paragraph"):
                        if tname not in c.schema.nodes:
                            continue
                        tal = [ops.NodeTypeWithAttrs(c.schema.nodes[tname], None)] * (depth - 1) + \
                              [ops.NodeTypeWithAttrs(rp.parent.type, rp.parent.attrs)]
                        try:
                            ok2 = structure.can_split(node, p, depth, tal)
                        except Exception:  # noqa: BLE001
                            continue
                        res.transitions += 1
                        if ok2:
                            res.violate("c18.can_split.crosses", {**case, "types_after": [tname] * (depth - 1) + ["(parent)"]},
                                        ok2, False, size=n)
                if ok:
                    tr = adapters.Transform(node)
                    try:
                        tr.split(p, depth)
                        T1 = tk.doc_tokens(model, tr.doc.to_json())
                        res.nontrivial += 1
                        if count_iso(model, T1) != iso_count:
                            res.violate("c18.split.changed-isolating-nodes", case, jkey(tr.doc.to_json())[:300], size=n)
                    except ValueError:
                        pass
                    except Exception:  # noqa: BLE001
                        res.clause("c18.split.internal-error(reported by C12)")


def spine_depth(model, content, side, open_isolating):
    d = 0
    cur = content
    while cur:
        nd = cur[side]
        tm = model.types[nd["type"]]
        if tm.is_leaf or tm.is_text:
            break
        if not open_isolating and tm.isolating:
            break
        d += 1
        cur = nd.get("content") or []
    return d


def check_max_open(res):
    for sid, fam, size in (("iso", "iso", 8), ("table", "table", 14), ("iso", "iso_list", 10), ("list", "lists", 10)):
        c = adapters.ctx(sid)
        pool = common.pool_slices(sid, fam, size)
        seen = set()
        for sl in pool:
            k = jkey(sl["content"])
            if k in seen:
                continue
            seen.add(k)
            frag = c.fragment(sl["content"] or None)
            res.states += 1
            for oi in (True, False):
                res.transitions += 1
                case = {"schema": sid, "fragment": sl["content"], "open_isolating": oi}
                try:
                    s = adapters.Slice.max_open(frag, oi)
                    s_default = adapters.Slice.max_open(frag) if oi else None
                except Exception as e:  # noqa: BLE001
                    res.violate("c18.max_open.raises", case, common.exc_str(e))
                    continue
                want = (spine_depth(c.model, sl["content"], 0, oi), spine_depth(c.model, sl["content"], -1, oi))
                res.validated += 1
                if (s.open_start, s.open_end) != want or jkey(s.content.to_json() or []) != k:
                    res.violate("c18.max_open", case, [s.open_start, s.open_end], list(want), size=len(k))
                if s_default is not None and (s_default.open_start, s_default.open_end) != want:
                    res.violate("c18.max_open.default", case, [s_default.open_start, s_default.open_end], list(want))
    res.sample({"max_open": "every pool fragment of iso/table/list scopes, open_isolating in {True, False}"})


def with_parents(model, pool, limit=16):
    """Slices cut 'with their parents' (Node.slice(a, b, include_parents=True)): one isolating top node, open on both
    sides through it down to a textblock or its children - the slice names the wrapper (and its attributes) although
    only part of its content is meant."""
    out = []
    for sl in pool:
        if sl["openStart"] or sl["openEnd"] or len(sl["content"]) != 1:
            continue
        top = sl["content"][0]
        if top["type"] == "text" or not model.types[top["type"]].isolating:
            continue
        dl = spine_depth(model, sl["content"], 0, True)
        dr = spine_depth(model, sl["content"], -1, True)
        for k in range(1, min(dl, dr) + 1):
            out.append({"content": sl["content"], "openStart": k, "openEnd": k})
        if len(out) >= limit:
            break
    return out[:limit]


_primed = False


def prime_plain():
    """Once per process, BEFORE any isolating variant is touched: the same range operations on the ordinary list
    schema, whose node types have the same names but are not isolating (a process that also edits ordinary documents).
    Answers remembered per type NAME would then be wrong for the variants."""
    global _primed
    if _primed:
        return
    _primed = True
    c = adapters.ctx("list")
    d = {"type": "doc", "attrs": {"meta": None}, "content": [
        {"type": "blockquote", "content": [{"type": "paragraph", "content": [{"type": "text", "text": "ab"}]}]},
        {"type": "bullet_list", "content": [{"type": "list_item", "content": [
            {"type": "paragraph", "content": [{"type": "text", "text": "cd"}]}]}]},
        {"type": "ordered_list", "attrs": {"order": 1}, "content": [{"type": "list_item", "content": [{"type": "paragraph"}]}]}]}
    node = c.node(d)
    n = node.content.size
    hr = adapters.Slice(adapters.Fragment.from_(c.schema.nodes["horizontal_rule"].create()), 0, 0)
    for a in range(n + 1):
        for b in range(a, n + 1):
            for fn in (lambda tr: tr.delete_range(a, b), lambda tr: tr.replace_range(a, b, hr),
                       lambda tr: tr.replace(a, b, hr)):
                try:
                    fn(adapters.Transform(node))
                except Exception:  # noqa: BLE001
                    pass
    for p in range(n + 1):
        for q in range(p, n + 1):
            try:
                rng = node.resolve(p).block_range(node.resolve(q))
                if rng is not None:
                    structure.lift_target(rng)
                structure.can_split(node, p, 1)
                structure.can_split(node, p, 2)
            except Exception:  # noqa: BLE001
                pass


def run_unit(u):
    res = engine.UnitResult(PROPERTY_ID)
    engine.arm()
    prime_plain()
    if u.get("kind") == "max_open":
        check_max_open(res)
        res.scopes.append({"unit": "max_open", "completed": True})
    else:
        c, sc, docs = common.unit_docs(u)
        pool = common.pool_slices(u["sid"], u["donor"][0], u["donor"][1])
        pools = ops.default_pools(c, sc, pool, u.get("max_slices"), offset=u.get("offset", 0))
        pools["slices"] = [*pools["slices"], *with_parents(c.model, pool)]
        k = 0
        for d in docs:
            check_doc(c, sc, d, pools, res)
            k += 1
        with_iso = [d for d in docs if iso_nodes(c.model, tk.doc_tokens(c.model, d))]
        if with_iso:
            res.sample({"schema": c.id, "doc": with_iso[-1], "op": {"op": "delete_range", "from": 2, "to": 5}})
        res.scopes.append({"unit": u["name"], "docs": len(docs), "docs_with_isolating": len(with_iso),
                           "slices": len(pools["slices"]), "completed": True})
    engine.disarm()
    res.evaluations = res.transitions
    return res


def replay(case):
    prime_plain()
    res = engine.UnitResult(PROPERTY_ID)
    if "fragment" in case:
        check_max_open(res)
        return res.violations
    c = adapters.ctx(case["schema"])
    from ..universe import scopes

    fam = scopes.families_for(case["schema"])[0]
    sc = scopes.scope(c.model, fam, case["schema"], 8)
    sl = [case["op"]["slice"]] if case.get("op", {}).get("slice") else common.pool_slices(case["schema"], fam, 6)[:10]
    pools = ops.default_pools(c, sc, sl, 10)
    if case.get("op", {}).get("node"):
        pools["nodes"] = [case["op"]["node"]]
    engine.arm()
    check_doc(c, sc, case["doc"], pools, res)
    engine.disarm()
    return res.violations
