"""C03 — a step's position map describes exactly what the step did (explorer E1 fed by E2)."""

from __future__ import annotations

from .. import adapters, engine, ops
from ..ref import maps as rm
from ..ref import tokens as tk
from . import c01, common

PROPERTY_ID = "C03"
jkey = tk.jkey


def describe():
    return {
        "rule": "every successfully applied step of C01's enumeration (all eight step types) and every step emitted by "
                "every operation of the transform menu on every scope document and on every document reachable at "
                "BFS depth 1 (thorough: 2): size arithmetic, token alignment outside the map's ranges, agreement of "
                "map() with that alignment, Transform.mapping alignment and composition. non-trivial = applied steps "
                "with a non-empty map (counted)",
        "assumptions": [
            "bounded scopes; untyped close tokens (a node's markup lives in its open token)",
            "mark/attribute steps (empty map) are compared on token kind/type/character, not on marks/attrs",
        ],
        "explanation": "E1 over primitive steps + E2 over the operation menu (non-initial states included)",
    }


def units(tier, seed):
    q = tier == "quick"
    out = []
    step_specs = c01.scope_specs(tier, seed)[: (5 if q else 99)]
    if q:
        step_specs.append({"sid": "list", "family": "astral", "size": 5, "donor": ("astral", 4)})
    # every ReplaceAroundStep quadruple x slice x insert offset (incl. offsets inside a text node of the slice)
    step_specs.append({"sid": "basic", "family": "blocks2", "size": 4 if q else 5, "donor": ("blocks2", 4), "all_around": True,
                       "tag": "all-quadruples", "blocks": 4})
    # runs of three and more text nodes that one mark step fuses (the map stays empty, the size must not change)
    step_specs.append({"sid": "basic", "family": "marks3", "size": 5 if q else 6, "donor": ("marks3", 3), "blocks": 4})
    for u in common.doc_units(PROPERTY_ID, step_specs, per_scope_blocks=8 if q else 16):
        u["kind"] = "steps"
        out.append(u)
    specs = [
        {"sid": "basic", "family": "blocks", "size": 5 if q else 6, "donor": ("blocks", 4), "max_slices": 40 if q else 120},
        {"sid": "list", "family": "lists", "size": 12 if q else 14, "donor": ("lists", 8 if q else 10), "max_slices": 40 if q else 150},
        {"sid": "basic", "family": "inline_s", "size": 4 if q else 5, "donor": ("inline_s", 3), "max_slices": 30 if q else 80},
        {"sid": "iso", "family": "iso", "size": 7 if q else 8, "donor": ("iso", 6), "max_slices": 30 if q else 80},
    ]
    extra = [
        {"sid": "table", "family": "table", "size": 12 if q else 14, "donor": ("table", 10), "max_slices": 30 if q else 80},
        {"sid": "struct", "family": "struct", "size": 6 if q else 7, "donor": ("struct", 5), "max_slices": 30 if q else 80},
        {"sid": "strict_hb", "family": "strict", "size": 9 if q else 10, "donor": ("strict", 8), "max_slices": 30 if q else 80},
        {"sid": "list", "family": "lists_q", "size": 9 if q else 10, "donor": ("lists_q", 7), "max_slices": 30 if q else 80},
    ]
    if q:
        specs.append(extra[seed % len(extra)])
    else:
        specs.extend(extra)
    for u in common.doc_units(PROPERTY_ID, specs, per_scope_blocks=8 if q else 16):
        u["kind"] = "ops"
        u["name"] += "/ops"
        u["depth"] = 1 if q else 2
        out.append(u)
    return out


def structure_only(t):
    return (t[0], t[1]) if t[0] != "c" else ("c",)


def check_map(model, step, before_node, after_node, res, case, size, T0=None):
    """Clauses (a)-(c) for one applied step."""
    sm = step.get_map()
    ranges = list(sm.ranges)
    tr = rm.normalize(ranges, sm.inverted)
    try:
        T0 = T0 if T0 is not None else tk.doc_tokens(model, before_node.to_json())
        T1 = tk.doc_tokens(model, after_node.to_json())
    except Exception as e:  # noqa: BLE001  the step produced something that is not a well-formed document
        res.violate("c03.malformed-result", case, common.exc_str(e) + " :: " + jkey(after_node.to_json())[:300], size=size)
        return
    res.validated += 1
    delta = sum(n - o for _, o, n in tr)
    if tr:
        res.nontrivial += 1
    if len(T1) - len(T0) != delta or after_node.content.size - before_node.content.size != delta:
        res.violate("c03.size", case, len(T1) - len(T0), delta, size=size)
        return
    # for_each reports the same ranges, in old and new coordinates
    got_fe = []
    sm.for_each(lambda a, b, c, d: got_fe.append((a, b, c, d)))
    if got_fe != rm.for_each(tr):
        res.violate("c03.for_each", case, got_fe, rm.for_each(tr), size=size)
        return
    # well-formedness of the ranges
    last = 0
    for s, o, n in tr:
        if s < last or o < 0 or n < 0 or s + o > len(T0):
            res.violate("c03.ranges-malformed", case, ranges, size=size)
            return
        last = s + o
    full = bool(tr) or not isinstance(step, (adapters.AddMarkStep, adapters.RemoveMarkStep, adapters.AddNodeMarkStep,
                                              adapters.RemoveNodeMarkStep, adapters.AttrStep, adapters.DocAttrStep))
    shift = 0
    ri = 0
    for i in range(len(T0)):
        while ri < len(tr) and tr[ri][0] + tr[ri][1] <= i:
            shift += tr[ri][2] - tr[ri][1]
            ri += 1
        if ri < len(tr) and tr[ri][0] <= i < tr[ri][0] + tr[ri][1]:
            continue  # inside a replaced range
        a, b = T0[i], T1[i + shift]
        if full:
            same = a == b
        else:
            same = structure_only(a) == structure_only(b)
        if not same:
            res.violate("c03.alignment", {**case, "index": i}, list(b), list(a),
                        fingerprint="c03.alignment:" + type(step).__name__, size=size)
            return
    # map() agrees for every position not strictly inside / at the border of a range
    for p in range(len(T0) + 1):
        inside = any(s <= p <= s + o for s, o, n in tr)
        if inside:
            continue
        sh = sum(n - o for s, o, n in tr if s + o < p)
        for assoc in (-1, 1):
            got = sm.map(p, assoc)
            if got != p + sh:
                res.violate("c03.map-position", {**case, "pos": p, "assoc": assoc}, got, p + sh, size=size)
                return
    # positions at a border of a (non-adjacent) range keep their side of the unchanged content
    for k, (s, o, n) in enumerate(tr):
        sh = sum(n2 - o2 for s2, o2, n2 in tr[:k])
        prev_touch = k > 0 and tr[k - 1][0] + tr[k - 1][1] == s
        next_touch = k + 1 < len(tr) and tr[k + 1][0] == s + o
        if prev_touch or next_touch:
            continue  # the first-range scan rule decides at a seam between touching ranges (see C08)
        if not prev_touch and sm.map(s, -1) != s + sh:
            res.violate("c03.map-border", {**case, "pos": s, "assoc": -1}, sm.map(s, -1), s + sh, size=size)
        if not next_touch and sm.map(s + o, 1) != s + sh + n:
            res.violate("c03.map-border", {**case, "pos": s + o, "assoc": 1}, sm.map(s + o, 1), s + sh + n, size=size)


def check_side_copy(c, tr, res, case, size):
    """The rebasing pattern: take a COPY of the transform's mapping, extend that with a foreign map, then let the
    transform go on - its own mapping must still be exactly the maps of its own steps.  (A slice is different: like
    upstream it shares the map list with its source and is not meant to be appended to.)"""
    try:
        side = tr.mapping.copy()
        side.append_map(adapters.StepMap([0, 0, 1]))
        tr.step(adapters.ReplaceStep(0, 0, adapters.Slice.empty))
    except ValueError:
        return
    except Exception as e:  # noqa: BLE001
        res.violate("c03.side-copy.raises", case, common.exc_str(e), size=size)
        return
    res.transitions += 1
    if not (len(tr.steps) == len(tr.docs) == tr.mapping.to - tr.mapping.from_):
        res.violate("c03.transform.alignment", case, [len(tr.steps), len(tr.docs), tr.mapping.to - tr.mapping.from_], size=size)
        return
    window = tr.mapping.maps[tr.mapping.from_: tr.mapping.to]
    for k, st in enumerate(tr.steps):
        if list(window[k].ranges) != list(st.get_map().ranges):
            res.violate("c03.transform.map-mismatch", {**case, "step_index": k}, list(window[k].ranges),
                        list(st.get_map().ranges), size=size)
            return


def check_transform(c, tr, res, case, size):
    """Clause (d): Transform.mapping is the list of the steps' maps; the composition is faithful."""
    model = c.model
    if not (len(tr.steps) == len(tr.docs) == len(tr.mapping.maps)):
        res.violate("c03.transform.alignment", case, [len(tr.steps), len(tr.docs), len(tr.mapping.maps)], size=size)
        return
    docs = [*tr.docs, tr.doc]
    for k, st in enumerate(tr.steps):
        res.transitions += 1
        if list(tr.mapping.maps[k].ranges) != list(st.get_map().ranges) or tr.mapping.maps[k].inverted != st.get_map().inverted:
            res.violate("c03.transform.map-mismatch", {**case, "step_index": k}, list(tr.mapping.maps[k].ranges),
                        list(st.get_map().ranges), size=size)
        check_map(model, st, docs[k], docs[k + 1], res, {**case, "step_index": k, "step": adapters.step_desc(st)}, size)
    # composition: a token that lies outside the ranges of every map arrives unchanged
    if len(tr.steps) >= 2:
        T0 = tk.doc_tokens(model, docs[0].to_json())
        T1 = tk.doc_tokens(model, docs[-1].to_json())
        trs = [rm.normalize(list(m.ranges), m.inverted) for m in tr.mapping.maps]
        only_maps = all(bool(t) for t in trs)
        for i in range(len(T0)):
            j = i
            alive = True
            for t in trs:
                sh = 0
                for s, o, n in t:
                    if s + o <= j:
                        sh += n - o
                    elif s <= j:
                        alive = False
                        break
                if not alive:
                    break
                j += sh
            if not alive:
                continue
            if j >= len(T1) or structure_only(T0[i]) != structure_only(T1[j]) or (only_maps and False):
                res.violate("c03.transform.composition", {**case, "index": i}, list(T1[j]) if j < len(T1) else None,
                            list(T0[i]), size=size)
                break
            if tr.mapping.map(i, 1) != j and tr.mapping.map(i, -1) != j:
                res.violate("c03.transform.mapping-map", {**case, "index": i},
                            [tr.mapping.map(i, -1), tr.mapping.map(i, 1)], j, size=size)
                break


def run_unit(u):
    res = engine.UnitResult(PROPERTY_ID)
    c, sc, docs = common.unit_docs(u)
    model = c.model
    pool = common.pool_slices(u["sid"], u["donor"][0], u["donor"][1])
    engine.arm()
    n = 0
    if u["kind"] == "steps":
        for d in docs:
            node = c.node(d)
            T = tk.doc_tokens(model, d)
            res.states += 1
            for sd in c01.enumerate_steps(c, sc, d, T, u, pool):
                engine.kick()
                res.transitions += 1
                try:
                    step = adapters.build_step(c, sd)
                    out = c01.apply_outcome(step, node)
                    if out[0] == "doc":
                        check_map(model, step, node, out[1], res, {"schema": c.id, "doc": d, "step": sd}, len(T), T)
                        n += 1
                except engine.Watchdog:
                    res.violate("c03.hang", {"schema": c.id, "doc": d, "step": sd}, "watchdog", size=len(T))
        if docs:
            res.sample({"kind": "step", "schema": c.id, "doc": docs[-1]})
        res.scopes.append({"unit": u["name"], "docs": len(docs), "applied_steps": n, "completed": True})
    else:
        pools = ops.default_pools(c, sc, pool, u.get("max_slices"))
        pools_small = ops.default_pools(c, sc, pool, 10, max_nodes=3)
        seen = set()
        frontier = [(d, 0) for d in docs]
        while frontier:
            d, depth = frontier.pop(0)
            k = jkey(d)
            if k in seen:
                continue
            seen.add(k)
            res.states += 1
            node = c.node(d)
            size = common.doc_size(model, d)
            for op in ops.enumerate_ops(model, size, pools if depth == 0 else pools_small):
                engine.kick()
                try:
                    status, tr, exc = ops.run_op(c, node, op)
                except engine.Watchdog:
                    res.violate("c03.hang", {"schema": c.id, "doc": d, "op": op}, "watchdog", size=size)
                    continue
                res.transitions += 1
                res.outcome(op["op"] + ":" + status)
                if tr.steps:
                    check_transform(c, tr, res, {"schema": c.id, "doc": d, "op": op}, size)
                    n += 1
                    if status == "ok" and depth == 0:
                        check_side_copy(c, tr, res, {"schema": c.id, "doc": d, "op": op, "then": "side-copy"}, size)
                    if status == "ok" and depth + 1 < u["depth"] and size <= u["size"] - 3:
                        nd = tr.doc.to_json()
                        if common.doc_size(model, nd) <= u["size"] and jkey(nd) not in seen:
                            frontier.append((nd, depth + 1))
        if docs:
            res.sample({"kind": "op", "schema": c.id, "doc": docs[-1], "op": {"op": "lift", "from": 1, "to": 2}})
        res.scopes.append({"unit": u["name"], "root_docs": len(docs), "states": len(seen), "ops_with_steps": n,
                           "depth": u["depth"], "completed": True})
    engine.disarm()
    res.evaluations = res.transitions
    return res


def replay(case):
    res = engine.UnitResult(PROPERTY_ID)
    c = adapters.ctx(case["schema"], case.get("spec"))
    d = case["doc"]
    node = c.node(d)
    size = common.doc_size(c.model, d)
    if "op" in case:
        status, tr, exc = ops.run_op(c, node, case["op"])
        if tr.steps:
            check_transform(c, tr, res, {"schema": c.id, "doc": d, "op": case["op"]}, size)
            if case.get("then") == "side-copy" and status == "ok":
                check_side_copy(c, tr, res, case, size)
    else:
        step = adapters.build_step(c, case["step"])
        out = c01.apply_outcome(step, node)
        if out[0] == "doc":
            check_map(c.model, step, node, out[1], res, {"schema": c.id, "doc": d, "step": case["step"]}, size)
    return res.violations
