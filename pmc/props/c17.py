"""C17 — concurrent edits to separate parts of a document commute after rebasing (explorer E2, diamonds)."""

from __future__ import annotations

from .. import adapters, engine, ops
from ..ref import maps as rm
from ..ref import tokens as tk
from . import c01, common

PROPERTY_ID = "C17"
jkey = tk.jkey


def describe():
    return {
        "rule": "for every scope document d (and every document reachable by one operation of the reduced menu) the set "
                "Steps(d) of first steps emitted by every menu operation; all ordered pairs (a, b) whose touched ranges "
                "are strictly separated (end(a) < start(b)); diamond: a.map(map_b), b.map(map_a) not None, both orders "
                "succeed and give JSON-equal documents. non-trivial = separated pairs checked (counted)",
        "assumptions": [
            "bounded scopes and menu pools",
            "touched range: map ranges for replace steps, [from,to] for replace-around and mark steps, [pos,pos+1] "
            "for node-mark/attr steps; doc-attr steps are not positional and are skipped",
        ],
        "explanation": "E2 diamond exploration over steps emitted by the operation menu",
    }


def units(tier, seed):
    q = tier == "quick"
    specs = [
        {"sid": "basic", "family": "blocks", "size": 4 if q else 5, "donor": ("blocks", 4), "max_slices": 8 if q else 16},
        {"sid": "list", "family": "lists", "size": 10 if q else 11, "donor": ("lists", 8), "max_slices": 8 if q else 12, "blocks": 48},
        {"sid": "basic", "family": "inline_s", "size": 4 if q else 5, "donor": ("inline_s", 3), "max_slices": 10 if q else 16},
        {"sid": "list", "family": "lists_q", "size": 8 if q else 9, "donor": ("lists_q", 7), "max_slices": 10 if q else 16},
        {"sid": "list", "family": "astral", "size": 5, "donor": ("astral", 4), "max_slices": 8 if q else 16},
        # blocks that carry node marks: a node-mark step and an edit inside the node are separated steps
        {"sid": "topmarks", "family": "topmarks", "size": 4 if q else 5, "donor": ("topmarks", 3), "max_slices": 8 if q else 16},
    ]
    extra = [
        {"sid": "table", "family": "table", "size": 10 if q else 12, "donor": ("table", 10), "max_slices": 10 if q else 16},
        {"sid": "iso", "family": "iso", "size": 6 if q else 7, "donor": ("iso", 6), "max_slices": 10 if q else 16},
        {"sid": "struct", "family": "struct", "size": 6 if q else 7, "donor": ("struct", 5), "max_slices": 10 if q else 16},
        {"sid": "strict_hb", "family": "strict", "size": 9 if q else 10, "donor": ("strict", 8), "max_slices": 10 if q else 16},
        {"sid": "title", "family": "title", "size": 8 if q else 9, "donor": ("title", 7), "max_slices": 10 if q else 16},
        {"sid": "fixed", "family": "fixed", "size": 10 if q else 11, "donor": ("fixed", 8), "max_slices": 10 if q else 16},
    ]
    # documents with three and more children in one parent: a wrap / lift / retype around them and an edit of a MIDDLE one
    specs.append({"sid": "basic", "family": "three", "size": 7 if q else 8, "donor": ("three", 3), "max_slices": 4 if q else 8,
                  "min_children": 3, "tag": "three-children", "blocks": 4})
    for sp in specs + extra:
        sp["offset"] = seed
        sp["depth"] = 1  # (depth 2 - diamonds on successor documents - proved too expensive even for the thorough tier)
    if q:
        specs.append(extra[seed % len(extra)])
    else:
        specs.extend(extra)
    return common.doc_units(PROPERTY_ID, specs, per_scope_blocks=16)


def touched(step):
    """Closed interval [lo, hi] of positions the step touches, or None (not positional)."""
    A = adapters
    if isinstance(step, A.ReplaceStep):
        return (step.from_, step.to)
    if isinstance(step, A.ReplaceAroundStep):
        return (step.from_, step.to)
    if isinstance(step, (A.AddMarkStep, A.RemoveMarkStep)):
        return (step.from_, step.to)
    if isinstance(step, (A.AddNodeMarkStep, A.RemoveNodeMarkStep, A.AttrStep)):
        return (step.pos, step.pos + 1)
    return None


def steps_of(c, node, d, pools, res):
    """Distinct first steps emitted by every menu operation on d: [(desc, step, range)]."""
    model = c.model
    size = node.content.size
    out = {}
    for op in ops.enumerate_ops(model, size, pools):
        engine.kick(10)
        try:
            status, tr, exc = ops.run_op(c, node, op)
        except engine.Watchdog:
            continue
        if not tr.steps:
            continue
        st = tr.steps[0]
        rng = touched(st)
        if rng is None:
            continue
        sd = adapters.step_desc(st)
        k = jkey(sd)
        if k not in out:
            out[k] = (sd, st, rng, op)
    return list(out.values())


def in_gap(a, b, rb):
    """b's range lies strictly inside the gap of the replace-around step a: a touches [from, gapFrom] and
    [gapTo, to] only (the gap content is carried over), so at least one untouched token separates b from both.
    Only FLAT steps b are paired this way (mark / attribute / node-mark steps, replace steps with a closed slice): a
    step with an open slice also closes and re-opens the nodes around its range, i.e. it reaches a's tokens."""
    if not isinstance(a, adapters.ReplaceAroundStep) or not (a.gap_from < rb[0] and rb[1] < a.gap_to):
        return False
    if isinstance(b, adapters.ReplaceAroundStep):
        return False
    if isinstance(b, adapters.ReplaceStep):
        return b.slice.open_start == 0 and b.slice.open_end == 0
    return True


def check_diamonds(c, node, d, steps, res, size):
    n = 0
    by_start = sorted(steps, key=lambda x: x[2][0])
    for sda, a, ra, opa in steps:
        da = None
        for sdb, b, rb, opb in by_start:
            if not (ra[1] < rb[0] or in_gap(a, b, rb)):
                continue
            engine.kick(10)
            n += 1
            res.transitions += 1
            res.nontrivial += 1
            case = {"schema": c.id, "doc": d, "a": sda, "b": sdb}
            try:
                a2 = a.map(b.get_map())
                b2 = b.map(a.get_map())
            except Exception as e:  # noqa: BLE001
                res.violate("c17.map.raises", case, common.exc_str(e), fingerprint="c17.map.raises:" + common.exc_fp(e),
                            size=size)
                continue
            # rebasing over a Mapping window [b's map] of a longer mapping equals rebasing over b's map alone
            try:
                win = adapters.Mapping([b.get_map(), adapters.StepMap([0, 0, 3])]).slice(0, 1)
                a3 = a.map(win)
                if (a3 is None) != (a2 is None) or (a3 is not None and jkey(adapters.step_desc(a3)) != jkey(adapters.step_desc(a2))):
                    res.violate("c17.map-over-window-differs", case,
                                None if a3 is None else adapters.step_desc(a3), None if a2 is None else adapters.step_desc(a2),
                                fingerprint="c17.map-over-window-differs:" + sda["stepType"], size=size)
            except Exception as e:  # noqa: BLE001
                res.violate("c17.map.raises", case, common.exc_str(e), fingerprint="c17.map.raises:" + common.exc_fp(e), size=size)
            # a rebased step reports the map of ITS OWN range (not a stale copy of the original's)
            for orig, reb in ((a, a2), (b, b2)):
                if reb is None:
                    continue
                fresh = adapters.build_step(c, adapters.step_desc(reb))
                if list(reb.get_map().ranges) != list(fresh.get_map().ranges):
                    res.violate("c17.rebased-map-stale", case, list(reb.get_map().ranges), list(fresh.get_map().ranges),
                                fingerprint="c17.rebased-map-stale:" + type(reb).__name__, size=size)
            if a2 is None or b2 is None:
                res.violate("c17.dropped", case, ["a dropped" if a2 is None else None, "b dropped" if b2 is None else None],
                            fingerprint="c17.dropped:" + sda["stepType"] + "/" + sdb["stepType"], size=size)
                continue
            if da is None:
                da = c01.apply_outcome(a, node)
            db = c01.apply_outcome(b, node)
            if da[0] != "doc" or db[0] != "doc":
                continue  # not both applicable to d (cannot happen for emitted steps)
            r1 = c01.apply_outcome(b2, da[1])
            r2 = c01.apply_outcome(a2, db[1])
            res.validated += 1
            if r1[0] != "doc" or r2[0] != "doc":
                res.violate("c17.rebased-step-fails", {**case, "a_rebased": adapters.step_desc(a2), "b_rebased": adapters.step_desc(b2)},
                            [r1[0] + ":" + str(r1[1])[:120] if r1[0] != "doc" else "ok",
                             r2[0] + ":" + str(r2[1])[:120] if r2[0] != "doc" else "ok"],
                            fingerprint="c17.rebased-step-fails:" + sda["stepType"] + "/" + sdb["stepType"], size=size)
                continue
            if jkey(r1[1].to_json()) != jkey(r2[1].to_json()):
                res.violate("c17.diverged", case, jkey(r1[1].to_json())[:300], jkey(r2[1].to_json())[:300],
                            fingerprint="c17.diverged:" + sda["stepType"] + "/" + sdb["stepType"], size=size)
    return n


def run_unit(u):
    res = engine.UnitResult(PROPERTY_ID)
    c, sc, docs = common.unit_docs(u)
    if u.get("min_children"):
        docs = [d for d in docs if len(d.get("content") or []) >= u["min_children"]]
    model = c.model
    pool = common.pool_slices(u["sid"], u["donor"][0], u["donor"][1])
    pools = ops.default_pools(c, sc, pool, u.get("max_slices"), max_nodes=4, offset=u.get("offset", 0))
    pools["marks"] = pools["marks"][:2]
    engine.arm()
    seen = set()
    frontier = [(d, 0) for d in docs]
    npairs = 0
    while frontier:
        d, depth = frontier.pop(0)
        k = jkey(d)
        if k in seen:
            continue
        seen.add(k)
        res.states += 1
        node = c.node(d)
        size = node.content.size
        steps = steps_of(c, node, d, pools, res)
        npairs += check_diamonds(c, node, d, steps, res, size)
        if depth + 1 < u["depth"]:
            for sd, st, rng, op in steps[::7]:
                out = c01.apply_outcome(st, node)
                if out[0] == "doc":
                    nj = out[1].to_json()
                    if common.doc_size(model, nj) <= u["size"] + 2 and jkey(nj) not in seen:
                        frontier.append((nj, depth + 1))
    engine.disarm()
    if docs:
        res.sample({"schema": c.id, "doc": docs[-1], "pairs": "all separated pairs of steps emitted by the menu"})
    res.scopes.append({"unit": u["name"], "roots": len(docs), "states": len(seen), "pairs": npairs, "completed": True})
    res.evaluations = res.transitions
    return res


def replay(case):
    res = engine.UnitResult(PROPERTY_ID)
    c = adapters.ctx(case["schema"])
    d = case["doc"]
    node = c.node(d)
    a = adapters.build_step(c, case["a"])
    b = adapters.build_step(c, case["b"])
    engine.arm()
    check_diamonds(c, node, d, [(case["a"], a, touched(a), None), (case["b"], b, touched(b), None)], res, 0)
    engine.disarm()
    _ = rm
    return res.violations
