"""C05 — JSON serialisation of documents, slices, marks and steps is lossless (explorer E1)."""

from __future__ import annotations

import copy
import json

from .. import adapters, engine
from ..ref import tokens as tk
from ..universe import gen_steps
from ..universe import schemas as schemas_mod
from . import c01, common

PROPERTY_ID = "C05"
jkey = tk.jkey

STEP_IDS = {
    "replace": "ReplaceStep", "replaceAround": "ReplaceAroundStep", "addMark": "AddMarkStep",
    "removeMark": "RemoveMarkStep", "addNodeMark": "AddNodeMarkStep", "removeNodeMark": "RemoveNodeMarkStep",
    "attr": "AttrStep", "docAttr": "DocAttrStep",
}


def describe():
    return {
        "rule": "every scope document, every child-range fragment, every pool slice (incl. zero-size open ones), every "
                "mark / mark set occurring in them, every step of the C01 pools (eight types): to_json -> json.dumps -> "
                "json.loads -> from_json must give an equal object with identical JSON; decoded steps are applied to "
                "every document of a pool; produced JSON is deep-mutated to detect aliasing. non-trivial = distinct "
                "objects round-tripped whose JSON is not null/empty (counted)",
        "assumptions": [
            "bounded scopes incl. the attrs schema with nested JSON attribute values and astral text",
            "steps have no eq(): equality of steps = identical JSON + identical effect and map on every pool document",
        ],
        "explanation": "E1 exhaustive JSON round trips",
    }


def units(tier, seed):
    q = tier == "quick"
    specs = [
        {"sid": "basic", "family": "blocks", "size": 5 if q else 6, "donor": ("blocks", 4)},
        {"sid": "basic", "family": "inline_s", "size": 4 if q else 5, "donor": ("inline_s", 3 if q else 4)},
        {"sid": "list", "family": "lists", "size": 12 if q else 14, "donor": ("lists", 8 if q else 10)},
        {"sid": "attrs", "family": "attrs", "size": 3 if q else 4, "donor": ("attrs", 3), "blocks": 16},
        {"sid": "list", "family": "astral", "size": 5 if q else 7, "donor": ("astral", 4 if q else 5)},
        {"sid": "topmarks", "family": "topmarks", "size": 4 if q else 5, "donor": ("topmarks", 3)},
    ]
    extra = [
        {"sid": "table", "family": "table", "size": 12, "donor": ("table", 10)},
        {"sid": "struct", "family": "struct", "size": 6, "donor": ("struct", 5)},
        {"sid": "basic", "family": "inline", "size": 4, "donor": ("inline", 3)},
        {"sid": "iso", "family": "iso", "size": 7, "donor": ("iso", 6)},
    ]
    if q:
        specs.append(extra[seed % len(extra)])
    else:
        specs.extend(extra)
    out = common.doc_units(PROPERTY_ID, specs, per_scope_blocks=8 if q else 16)
    out.append({"kind": "registry", "name": "registry"})
    for tag in ("1", "2"):
        out.append({"kind": "pairmix", "tag": tag, "size": 4 if q else 5, "name": f"pairmix/{tag}"})
    return out


def rt(j):
    return json.loads(json.dumps(j))


def deep_mutate(j):
    """In-place: append to every list, add a key to every dict (recursively)."""
    if isinstance(j, dict):
        for v in list(j.values()):
            deep_mutate(v)
        j["__mutated__"] = 1
    elif isinstance(j, list):
        for v in j:
            deep_mutate(v)
        j.append("__mutated__")


def check_obj(kind, x, from_json, eq, res, case, size):
    """Round trip one object. from_json(j) -> object; eq(a, b) -> bool."""
    res.transitions += 1
    try:
        j = x.to_json()
        s = json.dumps(j)
    except Exception as e:  # noqa: BLE001
        res.violate(f"c05.{kind}.to_json", case, common.exc_str(e), fingerprint=f"c05.{kind}.to_json:" + common.exc_fp(e),
                    size=size)
        return None
    snapshot = copy.deepcopy(j)
    try:
        y = from_json(json.loads(s))
    except Exception as e:  # noqa: BLE001
        res.violate(f"c05.{kind}.from_json", case, common.exc_str(e),
                    fingerprint=f"c05.{kind}.from_json:" + common.exc_fp(e), size=size)
        return None
    res.validated += 1
    if j:
        res.nontrivial += 1
    if eq is not None and not (eq(x, y) and eq(y, x)):
        res.violate(f"c05.{kind}.not-equal", case, jkey(y.to_json())[:300], jkey(j)[:300], size=size)
    j2 = y.to_json()
    if jkey(j2) != jkey(j):
        res.violate(f"c05.{kind}.json-differs", case, jkey(j2)[:300], jkey(j)[:300], size=size)
    # aliasing: mutate the produced JSON deeply; the live object must not notice
    if j is not None:
        deep_mutate(j)
        j3 = x.to_json()
        if jkey(j3) != jkey(snapshot):
            res.violate(f"c05.{kind}.aliased", case, jkey(j3)[:300], jkey(snapshot)[:300], size=size)
    return y


def frag_eq(a, b):
    return a.eq(b)


def check_doc(c, d, res, pool, doc_pool, u):
    model, schema = c.model, c.schema
    node = c.node(d)
    size = common.doc_size(model, d)
    base = {"schema": c.id, "doc": d}
    res.states += 1
    if jkey(node.to_json()) != jkey(d):
        res.violate("c05.node.from_json-lossy", base, jkey(node.to_json())[:300], jkey(d)[:300], size=size)
    check_obj("node", node, lambda j: adapters.Node.from_json(schema, j), lambda a, b: a.eq(b), res, base, size)
    # string input is accepted too
    try:
        if not adapters.Node.from_json(schema, json.dumps(node.to_json())).eq(node):
            res.violate("c05.node.from-string", base, "differs", size=size)
    except Exception as e:  # noqa: BLE001
        res.violate("c05.node.from-string", base, common.exc_str(e), size=size)
    # every node of the tree, every child range as a fragment
    stack = [node]
    seen_marks = {}
    while stack:
        n = stack.pop()
        for m in n.marks:
            seen_marks.setdefault(jkey(m.to_json()), m)
        if n.is_text:
            continue
        cnt = n.child_count
        for a in range(cnt + 1):
            for b in range(a, cnt + 1):
                fr = n.content.cut_by_index(a, b)
                check_obj("fragment", fr, lambda j: adapters.Fragment.from_json(schema, j), frag_eq, res,
                          {**base, "fragment_of": n.type.name, "range": [a, b]}, size)
        for i in range(cnt):
            ch = n.child(i)
            check_obj("node", ch, lambda j: adapters.Node.from_json(schema, j), lambda x, y: x.eq(y), res,
                      {**base, "child": ch.to_json()}, size)
            stack.append(ch)
    for k, m in seen_marks.items():
        check_obj("mark", m, lambda j: adapters.Mark.from_json(schema, j), lambda x, y: x.eq(y), res,
                  {**base, "mark": json.loads(k)}, size)
    # slices of this document
    n = node.content.size
    for a in range(n + 1):
        for b in range(a, n + 1):
            try:
                sl = node.slice(a, b)
            except ValueError:
                continue  # mid-surrogate cut
            check_obj("slice", sl, lambda j: adapters.Slice.from_json(schema, j), lambda x, y: x.eq(y), res,
                      {**base, "slice_range": [a, b]}, size)
    # steps: all eight types on this document
    T = tk.doc_tokens(model, d)
    small_pool = pool[: (25 if u.get("quick") else 60)]
    seen_results = set()
    for sd in _steps(c, d, T, small_pool):
        engine.kick()
        res.transitions += 1
        case = {**base, "step": sd}
        try:
            step = adapters.build_step(c, sd)
        except Exception as e:  # noqa: BLE001
            res.violate("c05.harness.build", case, common.exc_str(e), size=size)
            continue
        y = check_obj("step", step, lambda j: adapters.Step.from_json(schema, j), None, res, case, size)
        if y is None:
            continue
        if type(y) is not type(step):
            res.violate("c05.step.type", case, type(y).__name__, type(step).__name__, size=size)
            continue
        sj = step.to_json()
        if sj.get("stepType") != sd["stepType"] or STEP_IDS.get(sj.get("stepType")) != type(step).__name__:
            res.violate("c05.step.stepType", case, sj.get("stepType"), sd["stepType"], size=size)
        # identical effect and map on every document of the pool
        if list(y.get_map().ranges) != list(step.get_map().ranges) or y.get_map().inverted != step.get_map().inverted:
            res.violate("c05.step.map-differs", case, list(y.get_map().ranges), list(step.get_map().ranges), size=size)
        # the document the step produces was built through the API (add_to_set, replace, ...), not decoded from
        # JSON: it must survive the round trip as well
        o0 = c01.apply_outcome(step, node)
        if o0[0] == "doc":
            k0 = jkey(o0[1].to_json())
            if k0 not in seen_results:
                seen_results.add(k0)
                check_obj("node", o0[1], lambda j: adapters.Node.from_json(schema, j), lambda a, b: a.eq(b), res,
                          {**case, "of": "step result"}, size)
        for dj, dn in doc_pool:
            o1 = c01.apply_outcome(step, dn)
            o2 = c01.apply_outcome(y, dn)
            res.transitions += 2
            same = o1[0] == o2[0] and (o1[0] != "doc" or jkey(o1[1].to_json()) == jkey(o2[1].to_json()))
            if not same:
                res.violate("c05.step.effect-differs", {**case, "on": dj}, [o1[0], o2[0]],
                            fingerprint="c05.step.effect-differs:" + sd["stepType"], size=size)
                break


def _steps(c, d, T, pool):
    model = c.model
    n = len(T)
    marks = gen_steps.schema_marks(model, 4)
    # replace steps: all ranges only for small documents, otherwise ranges anchored at 0 / n
    yield from gen_steps.replace_steps(min(n, 4), pool)
    chains = gen_steps.wrapper_chains(model, list(model.type_names))[:6]
    for a in range(n + 1):
        for b in range(a, n + 1):
            for names, sl in chains:
                yield {"stepType": "replaceAround", "from": a, "to": b, "gapFrom": a, "gapTo": b, "slice": sl,
                       "insert": len(names), "structure": True}
                if b - a >= 2:
                    yield {"stepType": "replaceAround", "from": a, "to": b, "gapFrom": a + 1, "gapTo": b - 1,
                           "slice": sl, "insert": 1, "structure": False}
            if b - a >= 2:
                yield {"stepType": "replaceAround", "from": a, "to": b, "gapFrom": a + 1, "gapTo": b - 1,
                       "slice": {"content": [], "openStart": 0, "openEnd": 0}, "insert": 0, "structure": True}
    yield from gen_steps.mark_steps(n, marks)
    yield from gen_steps.node_steps(model, n, marks)


def check_registry(res):
    reg = adapters.STEPS_BY_ID
    res.transitions += 1
    got = {k: v.__name__ for k, v in reg.items()}
    for k, v in STEP_IDS.items():
        if got.get(k) != v:
            res.violate("c05.registry", {"id": k}, got.get(k), v)
    extra = set(got) - set(STEP_IDS)
    if extra:
        res.clause("c05.registry.extra-ids", len(extra))
    c = adapters.ctx("list")
    # every built-in step decodes by its published name
    samples = [
        {"stepType": "replace", "from": 0, "to": 0},
        {"stepType": "replaceAround", "from": 0, "to": 2, "gapFrom": 1, "gapTo": 1, "insert": 0},
        {"stepType": "addMark", "from": 0, "to": 1, "mark": {"type": "em"}},
        {"stepType": "removeMark", "from": 0, "to": 1, "mark": {"type": "em"}},
        {"stepType": "addNodeMark", "pos": 0, "mark": {"type": "em"}},
        {"stepType": "removeNodeMark", "pos": 0, "mark": {"type": "em"}},
        {"stepType": "attr", "pos": 0, "attr": "level", "value": 2},
        {"stepType": "docAttr", "attr": "meta", "value": 2},
    ]
    for sj in samples:
        try:
            st = adapters.Step.from_json(c.schema, rt(sj))
            if type(st).__name__ != STEP_IDS[sj["stepType"]] or st.to_json().get("stepType") != sj["stepType"]:
                res.violate("c05.registry.decode", {"json": sj}, type(st).__name__, STEP_IDS[sj["stepType"]])
            st2 = adapters.Step.from_json(c.schema, json.dumps(sj))
            if type(st2) is not type(st):
                res.violate("c05.registry.decode-string", {"json": sj}, type(st2).__name__)
        except Exception as e:  # noqa: BLE001
            res.violate("c05.registry.decode", {"json": sj}, common.exc_str(e))
    # ... also in a FRESH interpreter that imported nothing but the public package and has built no step itself
    # (a process that only receives steps): one subprocess per step type, in isolation from one another
    import subprocess
    import sys

    prog = (
        "import sys, json; sys.path.insert(0, sys.argv[1])\n"
        "from prosemirror.transform import Step\n"
        "from prosemirror.schema.basic import schema\n"
        "st = Step.from_json(schema, json.loads(sys.argv[2]))\n"
        "print(type(st).__name__, json.dumps(st.to_json(), sort_keys=True))\n"
    )
    for sj in samples:
        sj2 = dict(sj)
        if sj2["stepType"] == "docAttr":
            sj2["attr"] = "x"  # the basic schema's doc has no attrs; decoding does not look the name up
        res.transitions += 1
        p = subprocess.run([sys.executable, "-c", prog, adapters.REPO, json.dumps(sj2)], capture_output=True, text=True,
                           timeout=60)
        want = STEP_IDS[sj["stepType"]]
        got1 = p.stdout.split(" ")[0] if p.returncode == 0 else (p.stderr.strip().splitlines() or ["?"])[-1][:200]
        if got1 != want:
            res.violate("c05.registry.fresh-process-decode", {"json": sj2}, got1, want)
    for bad in ({"stepType": "nosuch"}, {}, {"from": 1}):
        try:
            adapters.Step.from_json(c.schema, bad)
            res.violate("c05.registry.unknown-accepted", {"json": bad}, "decoded")
        except ValueError:
            pass
        except Exception as e:  # noqa: BLE001
            res.violate("c05.registry.unknown-accepted", {"json": bad}, common.exc_str(e), "ValueError")
    res.states += 1
    res.sample({"registry": got})


def belongs(schema, obj, path="x"):
    """None, or where `obj` (Node / Fragment / Slice / Mark / Step) refers to a type of ANOTHER Schema instance."""
    if obj is None:
        return None
    if isinstance(obj, adapters.Mark):
        return None if schema.marks.get(obj.type.name) is obj.type else f"{path}: mark type {obj.type.name}"
    if isinstance(obj, adapters.Node):
        if schema.nodes.get(obj.type.name) is not obj.type:
            return f"{path}: node type {obj.type.name}"
        for m in obj.marks:
            w = belongs(schema, m, path + ".marks")
            if w:
                return w
        return belongs(schema, obj.content, path + "/" + obj.type.name)
    if isinstance(obj, adapters.Fragment):
        for i in range(obj.child_count):
            w = belongs(schema, obj.child(i), f"{path}[{i}]")
            if w:
                return w
        return None
    if isinstance(obj, adapters.Slice):
        return belongs(schema, obj.content, path + ".slice")
    for attr in ("mark", "slice"):
        if hasattr(obj, attr):
            w = belongs(schema, getattr(obj, attr), path + "." + attr)
            if w:
                return w
    return None


def run_pairmix(u):
    """Isolation between Schema instances: the two members of a pair (same names, same JSON, different meaning) decode
    the SAME JSON value directly one after the other, in both orders; whatever is decoded under a schema must consist
    of that schema's types only and act exactly like the object built under that schema."""
    res = engine.UnitResult(PROPERTY_ID)
    tag = u["tag"]
    cs = [adapters.ctx(f"pair{k}{tag}") for k in schemas_mod.PAIR_ORDERS[tag]]
    scoped = []
    for c in cs:
        _, sc, docs = common.scope_docs(c.id, "pair", u["size"])
        scoped.append({jkey(d): d for d in docs})
    shared = [d for k, d in scoped[0].items() if k in scoped[1]]
    if u.get("only_doc") is not None:
        shared = [u["only_doc"]]
    pool = [s for s in common.pool_slices(cs[0].id, "pair", 3) if s in common.pool_slices(cs[1].id, "pair", 3)][:25]
    engine.arm()
    for d in shared:
        res.states += 1
        T = tk.doc_tokens(cs[0].model, d)
        size = len(T)
        for first, second in ((0, 1), (1, 0)):
            ca, cb = cs[first], cs[second]
            base = {"pairmix": tag, "order": [ca.id, cb.id], "doc": d}
            engine.kick(20)
            try:
                na = adapters.Node.from_json(ca.schema, d)
                nb = adapters.Node.from_json(cb.schema, d)
            except Exception as e:  # noqa: BLE001
                res.violate("c05.pair.node.from_json", base, common.exc_str(e), size=size)
                continue
            res.transitions += 2
            for c, n in ((ca, na), (cb, nb)):
                w = belongs(c.schema, n)
                if w:
                    res.violate("c05.pair.node.foreign-type", {**base, "under": c.id}, w, size=size)
            for sd in _steps(ca, d, T, pool):
                case = {**base, "step": sd}
                try:
                    sa = adapters.build_step(ca, sd)
                    sb = adapters.build_step(cb, sd)
                    j = sa.to_json()
                    ya = adapters.Step.from_json(ca.schema, j)
                    yb = adapters.Step.from_json(cb.schema, json.loads(json.dumps(j)))
                except Exception as e:  # noqa: BLE001
                    res.violate("c05.pair.step.raises", case, common.exc_str(e),
                                fingerprint="c05.pair.step.raises:" + common.exc_fp(e), size=size)
                    continue
                res.transitions += 2
                for c, y, s0, n in ((ca, ya, sa, na), (cb, yb, sb, nb)):
                    w = belongs(c.schema, y)
                    if w:
                        res.violate("c05.pair.step.foreign-type", {**case, "under": c.id}, w, size=size)
                        continue
                    o1 = c01.apply_outcome(s0, n)
                    o2 = c01.apply_outcome(y, n)
                    res.validated += 1
                    if not (o1[0] == o2[0] and (o1[0] != "doc" or jkey(o1[1].to_json()) == jkey(o2[1].to_json()))):
                        res.violate("c05.pair.step.effect-differs", {**case, "under": c.id}, [o1[0], o2[0]], size=size)
    engine.disarm()
    res.scopes.append({"unit": u["name"], "shared_docs": len(shared), "slices": len(pool), "completed": True})
    res.evaluations = res.transitions
    return res


def run_unit(u):
    if u.get("kind") == "pairmix":
        return run_pairmix(u)
    res = engine.UnitResult(PROPERTY_ID)
    engine.arm()
    if u.get("kind") == "registry":
        check_registry(res)
        res.scopes.append({"unit": "registry", "completed": True})
        engine.disarm()
        return res
    c, sc, docs = common.unit_docs(u)
    pool = common.pool_slices(u["sid"], u["donor"][0], u["donor"][1])
    _, _, all_docs = common.scope_docs(u["sid"], u["family"], u["size"])
    pick = all_docs[:: max(1, len(all_docs) // 5)][:6]
    doc_pool = [(dj, c.node(dj)) for dj in pick]
    uu = dict(u)
    uu["quick"] = u["nblocks"] <= 8
    # pool slices themselves (any open depth, zero-size open slices)
    if u["block"] == 0:
        extra = [{"content": [p], "openStart": 1, "openEnd": 1} for p in _empty_textblocks(c, sc)]
        for sl in [*pool, *extra]:
            x = c.slice(sl)
            check_obj("slice", x, lambda j: adapters.Slice.from_json(c.schema, j), lambda a, b: a.eq(b), res,
                      {"schema": c.id, "slice": sl}, 0)
            # a zero-size open slice serialises without content: decoded it must still have the same effect
    for d in docs:
        engine.kick(120)
        try:
            check_doc(c, d, res, pool, doc_pool, uu)
        except engine.Watchdog:
            res.violate("c05.hang", {"schema": c.id, "doc": d}, "watchdog")
    engine.disarm()
    if docs:
        res.sample({"schema": c.id, "doc": docs[-1]})
    res.scopes.append({"unit": u["name"], "docs": len(docs), "completed": True})
    res.evaluations = res.transitions
    return res


def _empty_textblocks(c, sc):
    out = []
    for t in sc["types"]:
        tm = c.model.types[t]
        if tm.is_textblock and not tm.required_attrs:
            n = {"type": t}
            if tm.attrs:
                n["attrs"] = dict(tm.default_attrs)
            out.append(n)
    return out


def replay(case):
    if case.get("pairmix"):
        return run_pairmix({"tag": case["pairmix"], "size": 4, "only_doc": case["doc"], "name": "replay"}).violations
    res = engine.UnitResult(PROPERTY_ID)
    if "id" in case or "json" in case:
        check_registry(res)
        return res.violations
    c = adapters.ctx(case["schema"], case.get("spec"))
    if "doc" not in case:
        x = c.slice(case["slice"])
        check_obj("slice", x, lambda j: adapters.Slice.from_json(c.schema, j), lambda a, b: a.eq(b), res, case, 0)
        return res.violations
    fam = case.get("family")
    from ..universe import scopes

    fam = fam or scopes.families_for(case["schema"])[0]
    pool = common.pool_slices(case["schema"], fam, 3)
    engine.arm()
    engine.kick(120)
    check_doc(c, case["doc"], res, pool, [(case["doc"], c.node(case["doc"]))], {"quick": True})
    engine.disarm()
    return res.violations
