"""C02 — replacing a range is exactly a splice of the flat token sequence (explorer E1)."""

from __future__ import annotations

from .. import adapters, engine
from ..ref import slices as rsl
from ..ref import tokens as tk
from ..ref import validity
from . import common

PROPERTY_ID = "C02"
jkey = tk.jkey


def describe():
    return {
        "rule": "exhaustive cross product scope documents x all position pairs from<=to x all reference-computed "
                "slices of the donor scope (plus all slice/cut ranges); a case is non-trivial when the replace "
                "returned a document (counted: distinct (doc, from, to, slice) with a returned document)",
        "assumptions": [
            "bounded: documents and donor documents up to the token sizes listed under scopes",
            "reference token model (pmc/ref/tokens.py, slices.py) and reference validator are the oracle",
            "positions inside a surrogate pair are only required not to raise an internal error",
        ],
        "explanation": "E1 input-space exploration of Node.slice/cut/replace against the flat token splice model",
    }


def units(tier, seed):
    q = tier == "quick"
    specs = [
        {"sid": "basic", "family": "blocks", "size": 6 if q else 7, "donor": ("blocks", 4 if q else 5)},
        {"sid": "basic", "family": "blocks2", "size": 6 if q else 7, "donor": ("blocks2", 4 if q else 5)},
        {"sid": "basic", "family": "inline_s", "size": 5 if q else 6, "donor": ("inline_s", 4 if q else 5)},
        {"sid": "list", "family": "lists", "size": 12 if q else 14, "donor": ("lists", 10 if q else 12)},
        {"sid": "list", "family": "astral", "size": 6 if q else 8, "donor": ("astral", 5 if q else 6)},
        # ... and the documents replaces RETURN, examined as live objects (histories of two operations)
        {"sid": "list", "family": "astral2", "size": 5 if q else 6, "donor": ("astral2", 4), "chain": True, "tag": "chain"},
        {"sid": "basic", "family": "inline_s", "size": 4, "donor": ("inline_s", 3), "chain": True, "tag": "chain"},
        {"sid": "iso", "family": "iso", "size": 8 if q else 10, "donor": ("iso", 7 if q else 8)},
        {"sid": "table", "family": "table", "size": 12 if q else 16, "donor": ("table", 12 if q else 14)},
        {"sid": "struct", "family": "struct", "size": 6 if q else 7, "donor": ("struct", 6 if q else 7)},
        {"sid": "topmarks", "family": "topmarks", "size": 5 if q else 6, "donor": ("topmarks", 3 if q else 5)},
        {"sid": "basic", "family": "links", "size": 5 if q else 6, "donor": ("links", 4)},
        {"sid": "inlstrict", "family": "inlstrict", "size": 4 if q else 5, "donor": ("inlstrict", 3 if q else 4)},
        # inline nodes with content, one of them an atom (atom != leaf)
        {"sid": "chips", "family": "chips", "size": 5 if q else 6, "donor": ("chips", 4 if q else 5), "blocks": 4},
    ]
    extra = [
        {"sid": "list", "family": "lists_q", "size": 10 if q else 12, "donor": ("lists_q", 8 if q else 10)},
        {"sid": "strict_hb", "family": "strict", "size": 10 if q else 12, "donor": ("strict", 9 if q else 10)},
        {"sid": "title", "family": "title", "size": 10 if q else 14, "donor": ("title", 10 if q else 12)},
        {"sid": "fixed", "family": "fixed", "size": 10 if q else 16, "donor": ("fixed", 10 if q else 12)},
        {"sid": "basic", "family": "inline", "size": 4 if q else 5, "donor": ("inline", 4)},
        {"sid": "iso", "family": "iso_list", "size": 10 if q else 12, "donor": ("iso_list", 9 if q else 10)},
    ]
    if q:
        specs.append(extra[seed % len(extra)])
    else:
        specs.extend(extra)
    out = common.doc_units(PROPERTY_ID, specs, per_scope_blocks=8 if q else 16)
    # isolation pairs: same names / JSON / expression strings, different meaning, both creation orders
    out.extend(common.pairseq_units(PROPERTY_ID, 4 if q else 5, 3 if q else 4))
    return out


def run_unit(u):
    if u.get("kind") == "pairseq":
        return common.run_pairseq(u, run_unit, PROPERTY_ID)
    res = engine.UnitResult(PROPERTY_ID)
    c, sc, docs = common.unit_docs(u)
    pool = common.pool_slices(u["sid"], u["donor"][0], u["donor"][1])
    model = c.model
    live_pool = [(sl, c.slice(sl), rsl.slice_tokens(model, sl)) for sl in pool]
    engine.arm()
    ncases = 0
    for d in docs:
        node = common.valid_doc_conformance(c, d, res)
        T = tk.doc_tokens(model, d)
        n = len(T)
        res.states += 1
        # a second document that SHARES this one's content fragment but has other top-node attributes
        twin = None
        top_attrs = list(model.types[model.top].attrs)
        if top_attrs:
            twin = node.type.create({top_attrs[0]: 7}, node.content)
        for a in range(n + 1):
            for b in range(a, n + 1):
                engine.kick()
                try:
                    check_slice(c, d, node, T, a, b, res)
                    for sl, lsl, S in live_pool:
                        check_replace(c, d, node, T, a, b, sl, lsl, S, res)
                        ncases += 1
                        if twin is not None and len(S) <= 3:
                            check_twin(c, d, node, twin, a, b, sl, lsl, res, top_attrs[0])
                        if u.get("chain") and len(S) <= 3:
                            check_chain(c, d, node, a, b, sl, lsl, res)
                except engine.Watchdog:
                    res.violate("c02.hang", {"kind": "range", "schema": c.id, "doc": d, "from": a, "to": b},
                                "watchdog", size=n)
    engine.disarm()
    res.scopes.append({"unit": u["name"], "docs": len(docs), "pool_slices": len(pool), "cases": ncases,
                       "completed": True})
    if docs:
        res.sample({"schema": c.id, "doc": docs[-1], "from": 1, "to": 2, "slice": pool[min(3, len(pool) - 1)]})
    return res


def check_chain(c, d, node, a, b, sl, lsl, res):
    """The document a replace RETURNS (built by cutting and merging nodes of its inputs) is itself a document: every
    slice of it and every deletion on it must again be the token splice - compared on the live result object, not on
    an equal document rebuilt from JSON."""
    try:
        r = node.replace(a, b, lsl)
    except Exception:  # noqa: BLE001  (judged by the replace clause)
        return
    rj = r.to_json()
    T2 = tk.doc_tokens(c.model, rj)
    n2 = len(T2)
    base = {"kind": "chain", "schema": c.id, "doc": d, "from": a, "to": b, "slice": sl}
    for x in range(n2 + 1):
        if rsl.is_midpair(T2, x):
            continue
        for y in range(x, n2 + 1):
            if rsl.is_midpair(T2, y):
                continue
            res.transitions += 1
            case = {**base, "then": [x, y]}
            try:
                s2 = r.slice(x, y)
                exp_c, exp_os, exp_oe = rsl.ref_slice(T2, x, y)
                got = (tk.jkey(s2.content.to_json() or []), s2.open_start, s2.open_end)
                if got != (tk.jkey(exp_c), exp_os, exp_oe) or s2.size != y - x:
                    res.violate("c02.chain.slice", case, list(got), [tk.jkey(exp_c), exp_os, exp_oe], size=n2)
                    return
            except Exception as e:  # noqa: BLE001
                res.violate("c02.chain.slice.raises", case, common.exc_str(e),
                            fingerprint="c02.chain.slice.raises:" + common.exc_fp(e), size=n2)
                return
            if y - x > 2:
                continue
            # deleting the range again
            E = rsl.splice(T2, x, y, [])
            content = tk.parse_content(E)
            try:
                r2 = r.replace(x, y, adapters.Slice.empty)
            except adapters.ReplaceError:
                continue
            except Exception as e:  # noqa: BLE001
                res.violate("c02.chain.delete.raises", case, common.exc_str(e),
                            fingerprint="c02.chain.delete.raises:" + common.exc_fp(e), size=n2)
                return
            res.validated += 1
            if content is not None and tk.jkey(r2.content.to_json() or []) != tk.jkey(content):
                res.violate("c02.chain.delete", case, tk.jkey(r2.content.to_json() or [])[:300], tk.jkey(content)[:300], size=n2)
                return


def check_slice(c, d, node, T, a, b, res):
    model = c.model
    case = {"kind": "slice", "schema": c.id, "doc": d, "from": a, "to": b}
    mid = rsl.is_midpair(T, a) or rsl.is_midpair(T, b)
    res.transitions += 1
    try:
        s = node.slice(a, b)
    except Exception as e:  # noqa: BLE001
        if mid and isinstance(e, ValueError):
            res.clause("c02.midpair.slice-rejected")
            return
        res.violate("c02.slice.raises", case, common.exc_str(e), fingerprint="c02.slice.raises:" + common.exc_fp(e),
                    size=len(T))
        return
    if mid:
        res.clause("c02.midpair.slice-returned")
        return
    exp_c, exp_os, exp_oe = rsl.ref_slice(T, a, b)
    got = (tk.jkey(s.content.to_json() or []), s.open_start, s.open_end)
    res.validated += 1
    res.clause("c02.slice")
    if got != (tk.jkey(exp_c), exp_os, exp_oe):
        res.violate("c02.slice", case, list(got), [tk.jkey(exp_c), exp_os, exp_oe], size=len(T))
        return
    if s.size != b - a:
        res.violate("c02.slice.size", case, s.size, b - a, size=len(T))
    # cut: Node.cut(a, b) keeps the parent chain closed: tokens are T[a:b] completed on both sides
    try:
        cut = node.cut(a, b)
        cut_tokens = tk.doc_tokens(model, cut.to_json())
        lo, fin = tk.balanced_profile(T[a:b])
        st = rsl.open_stack(T, a)
        exp = list(st[len(st) + lo:] if lo else []) + T[a:b] + [("c",)] * (fin - lo)
        # Node.cut keeps *all* ancestors up to the document: add the ancestors above the shared level
        outer = st[: len(st) + lo] if lo else st
        exp = list(outer) + exp + [("c",)] * len(outer)
        if a == b:
            exp = []
        res.clause("c02.cut")
        res.validated += 1
        if cut_tokens != exp:
            res.violate("c02.cut", case, tk.jkey(cut.to_json())[:300], size=len(T))
    except Exception as e:  # noqa: BLE001
        res.violate("c02.cut.raises", case, common.exc_str(e), fingerprint="c02.cut.raises:" + common.exc_fp(e),
                    size=len(T))
    # re-inserting the slice where it was cut gives back an equal document
    try:
        back = node.replace(a, b, s)
        res.transitions += 1
        res.clause("c02.reinsert")
        if tk.jkey(back.to_json()) != tk.jkey(d) or not back.eq(node):
            res.violate("c02.reinsert", case, tk.jkey(back.to_json())[:300], size=len(T))
    except Exception as e:  # noqa: BLE001
        res.violate("c02.reinsert.raises", case, common.exc_str(e),
                    fingerprint="c02.reinsert.raises:" + common.exc_fp(e), size=len(T))


def expected_replace(model, d, T, a, b, sl, S):
    """('ok', content_json) | ('reject', reason) | ('unspecified', reason)"""
    E = rsl.splice(T, a, b, S)
    pairs = rsl.join_pairs(model, T, a, b, sl)
    if pairs is None:
        return ("reject", "inconsistent open depths")
    content = tk.parse_content(E)
    if content is None:
        return ("reject", "unbalanced")
    newdoc = dict(d)
    if content:
        newdoc["content"] = content
    else:
        newdoc.pop("content", None)
    prob = validity.node_problem(model, newdoc)
    if prob:
        return ("reject", prob)
    for x, y in pairs:
        if not model.compatible_content(x, y):
            return ("unspecified", f"join {x}/{y}")
    return ("ok", content)


def check_replace(c, d, node, T, a, b, sl, lsl, S, res):
    model = c.model
    res.transitions += 1
    mid = rsl.is_midpair(T, a) or rsl.is_midpair(T, b)
    size = len(T) + len(S)
    try:
        r = node.replace(a, b, lsl)
        outcome = "ok"
    except adapters.ReplaceError:
        outcome = "replace-error"
        r = None
    except Exception as e:  # noqa: BLE001
        if mid and isinstance(e, ValueError):
            res.clause("c02.midpair.replace-rejected")
            return
        case = {"kind": "replace", "schema": c.id, "doc": d, "from": a, "to": b, "slice": sl}
        res.violate("c02.replace.wrong-exception", case, common.exc_str(e),
                    fingerprint="c02.replace.exc:" + common.exc_fp(e), size=size)
        return
    if mid:
        res.clause("c02.midpair.replace-" + outcome)
        return
    exp = expected_replace(model, d, T, a, b, sl, S)
    res.validated += 1
    if outcome == "ok":
        res.nontrivial += 1
        res.outcome("returned")
        got = r.content.to_json() or []
        if exp[0] == "reject":
            case = {"kind": "replace", "schema": c.id, "doc": d, "from": a, "to": b, "slice": sl}
            res.violate("c02.replace.accepted-invalid", case, tk.jkey(got)[:300], exp[1], size=size)
            return
        E = rsl.splice(T, a, b, S)
        want = tk.parse_content(E)
        res.clause("c02.replace.splice")
        if tk.jkey(got) != tk.jkey(want) or r.type.name != node.type.name or tk.jkey(r.to_json().get("attrs")) != tk.jkey(d.get("attrs")):
            case = {"kind": "replace", "schema": c.id, "doc": d, "from": a, "to": b, "slice": sl}
            res.violate("c02.replace.splice", case, tk.jkey(got)[:400], tk.jkey(want)[:400], size=size)
            return
        if r.content.size != len(T) + len(S) - (b - a) or r.content.size != tk.content_size(model, got):
            case = {"kind": "replace", "schema": c.id, "doc": d, "from": a, "to": b, "slice": sl}
            res.violate("c02.replace.size", case, r.content.size, len(T) + len(S) - (b - a), size=size)
    else:
        res.outcome("rejected")
        if exp[0] == "ok":
            case = {"kind": "replace", "schema": c.id, "doc": d, "from": a, "to": b, "slice": sl}
            res.violate("c02.replace.spurious-rejection", case, "ReplaceError", tk.jkey(exp[1])[:300], size=size)
        else:
            res.clause("c02.replace.rejects-" + exp[0])


def check_twin(c, d, node, twin, a, b, sl, lsl, res, attr):
    """Positions resolved on one document must not leak into a replace on another document that shares its content."""
    res.transitions += 1
    try:
        node.resolve(a), node.resolve(b)
        r1 = node.replace(a, b, lsl)
    except ValueError:
        r1 = None
    try:
        r2 = twin.replace(a, b, lsl)
    except ValueError:
        r2 = None
    if (r1 is None) != (r2 is None):
        res.violate("c02.twin.outcome-differs", {"kind": "twin", "schema": c.id, "doc": d, "from": a, "to": b, "slice": sl},
                    [r1 is None, r2 is None], size=len(jkey(d)))
    elif r2 is not None:
        j2 = r2.to_json()
        if (j2.get("attrs") or {}).get(attr) != 7 or jkey(j2.get("content")) != jkey(r1.to_json().get("content")):
            res.violate("c02.twin.markup-leaked", {"kind": "twin", "schema": c.id, "doc": d, "from": a, "to": b, "slice": sl},
                        jkey(j2)[:300], "attrs of the second document, same content", size=len(jkey(d)))


def replay(case):
    res = engine.UnitResult(PROPERTY_ID)
    c = adapters.ctx(case["schema"], case.get("spec"))
    d = case["doc"]
    node = c.node(d)
    T = tk.doc_tokens(c.model, d)
    engine.arm()
    engine.kick(30)
    try:
        if case["kind"] in ("slice", "range"):
            check_slice(c, d, node, T, case["from"], case["to"], res)
        if case["kind"] == "twin":
            attr = list(c.model.types[c.model.top].attrs)[0]
            twin = node.type.create({attr: 7}, node.content)
            check_twin(c, d, node, twin, case["from"], case["to"], case["slice"], c.slice(case["slice"]), res, attr)
        if case["kind"] == "chain":
            check_chain(c, d, node, case["from"], case["to"], case["slice"], c.slice(case["slice"]), res)
        if case["kind"] == "replace":
            sl = case["slice"]
            check_replace(c, d, node, T, case["from"], case["to"], sl, c.slice(sl), rsl.slice_tokens(c.model, sl), res)
    except engine.Watchdog:
        res.violate("c02.hang", case, "watchdog")
    engine.disarm()
    return res.violations
