"""C07 — validity predicates agree exactly with the schema's definition of validity (explorer E1)."""

from __future__ import annotations

import itertools

from .. import adapters, engine
from ..ref import cexpr, validity
from ..ref import marks as rmk
from ..ref import tokens as tk
from ..universe import gen_docs, schemas
from . import common

PROPERTY_ID = "C07"
jkey = tk.jkey
Node = adapters.Node


def describe():
    return {
        "rule": "(i) all trees (valid or not) up to 4 nodes over each scope vocabulary + every single-fault mutation of "
                "every valid scope document -> check()/valid_content; (ii) every distinct node of every valid scope "
                "document x all child ranges x all replacement fragments of <= 2 pool nodes x all sub-ranges -> "
                "can_replace; x all types x mark sets -> can_replace_with; x all pool nodes -> can_append; every type x "
                "child sequences <= 2(3) -> create_checked / Schema.node. non-trivial = predicate calls answered True "
                "(counted)",
        "assumptions": [
            "bounded scopes; replacement pool = one minimal node per type plus marked inline variants",
            "reference validity = content expression (derivatives) + allowed marks + canonical mark sets at every node",
            "can_append with empty `other` is compared with documented content compatibility",
        ],
        "explanation": "E1 exhaustive comparison of the validity predicates with the reference validator",
    }


def units(tier, seed):
    q = tier == "quick"
    specs = [
        {"sid": "basic", "family": "blocks", "size": 6 if q else 7},
        {"sid": "basic", "family": "inline_s", "size": 5 if q else 6},
        {"sid": "list", "family": "lists", "size": 12 if q else 14},
        {"sid": "struct", "family": "struct", "size": 6 if q else 7},
        {"sid": "topmarks", "family": "topmarks", "size": 4 if q else 5},
        {"sid": "table", "family": "table", "size": 12 if q else 14},
    ]
    extra = [
        {"sid": "strict_hb", "family": "strict", "size": 9 if q else 10},
        {"sid": "title", "family": "title", "size": 8 if q else 12},
        {"sid": "iso", "family": "iso", "size": 7 if q else 8},
        {"sid": "fixed", "family": "fixed", "size": 10 if q else 12},
        {"sid": "attrs", "family": "attrs", "size": 3 if q else 4},
    ]
    if q:
        specs.append(extra[seed % len(extra)])
    else:
        specs.extend(extra)
    out = common.doc_units(PROPERTY_ID, specs, per_scope_blocks=8 if q else 16)
    for u in out:
        u["kind"] = "docs"
    # arbitrary trees (valid or not)
    for sid, fam, nq, nt in [("basic", "blocks", 5, 6), ("list", "lists", 5, 6), ("struct", "struct", 4, 5),
                             ("topmarks", "topmarks", 4, 5), ("basic", "inline_s", 4, 5)]:
        nb = 8 if q else 16
        for b in range(nb):
            out.append({"kind": "trees", "sid": sid, "family": fam, "nodes": nq if q else nt, "block": b, "nblocks": nb,
                        "name": f"trees/{sid}/{fam}#{b}/{nb}"})
    for b in range(16):
        out.append({"kind": "wide", "block": b, "nblocks": 16, "quick": q, "name": f"wide-expressions#{b}/16"})
    # mark-permission family
    fam = schemas.mark_family_specs([("A", "B", "C")])
    step = 16 if q else 4
    sel = fam[(seed % step)::step]
    nb = 8
    for b in range(nb):
        out.append({"kind": "fmarks", "ids": [x[0] for x in sel[b::nb]], "name": f"fmarks#{b}/{nb}"})
    return out


def raw_node(c, j):
    """Build a live node through the unchecked constructors, keeping mark lists exactly as given."""
    schema = c.schema
    marks = [c.mark(m) for m in j.get("marks") or []]
    if j["type"] == "text":
        return adapters.pm_model.node.TextNode(schema.nodes["text"], schema.nodes["text"].default_attrs or {}, j["text"], marks)
    t = schema.nodes[j["type"]]
    kids = [raw_node(c, k) for k in j.get("content") or []]
    return Node(t, t.compute_attrs(j.get("attrs")), adapters.Fragment(kids) if kids else None, marks)


def pool_nodes(c, sc):
    """One minimal valid node per vocabulary type + marked variants of inline nodes (JSON)."""
    model = c.model
    g = gen_docs.DocGen(model, sc)
    out = []
    for t in sc["types"]:
        if t == model.top:
            continue
        tm = model.types[t]
        if tm.is_text:
            for ms in sc.get("marksets", [[]]):
                n = {"type": "text", "text": "a"}
                if ms:
                    n["marks"] = ms
                out.append(n)
            continue
        found = None
        for size in range(1, 8):
            # parent 'None' marks: generate without marks
            g2 = gen_docs.DocGen(model, {**sc, "marksets": [[]], "node_marks": {}})
            cands = g2.nodes(t, size, 4, model.top)
            if cands:
                found = cands[0]
                break
        if found is not None:
            out.append(found)
            if tm.is_inline:
                for ms in sc.get("marksets", [[]])[1:3]:
                    out.append({**found, "marks": ms})
            elif t in sc.get("node_marks", {}):
                for ms in sc["node_marks"][t][1:2]:
                    out.append({**found, "marks": ms})
    _ = g
    return out


def child_types(j):
    return [k["type"] for k in j.get("content") or []]


def marks_allowed(model, parent, nodes):
    return all(model.allows_mark(parent, m["type"]) for n in nodes for m in n.get("marks") or [])


def check_predicates_on_node(c, nj_, pool, live_pool, res, size, extra_others=None):
    """can_replace / can_replace_with / can_append on one (valid) node."""
    model = c.model
    tname = nj_["type"]
    tm = model.types[tname]
    if tm.is_text:
        return
    node = c.node(nj_)
    kids = nj_.get("content") or []
    ktypes = [k["type"] for k in kids]
    n = len(kids)
    base = {"schema": c.id, "spec": _spec(c), "node": nj_}
    frags = [((), ())]
    for i in range(len(pool)):
        frags.append(((pool[i],), (live_pool[i],)))
    for i in range(len(pool)):
        for k in range(len(pool)):
            a, b = pool[i], pool[k]
            if a["type"] == "text" and b["type"] == "text" and jkey(a.get("marks") or []) == jkey(b.get("marks") or []):
                continue
            frags.append(((a, b), (live_pool[i], live_pool[k])))
    live_frags = [(fj, adapters.Fragment(list(fl))) for fj, fl in frags]
    for frm in range(n + 1):
        for to in range(frm, n + 1):
            pre, suf = ktypes[:frm], ktypes[to:]
            for fj, fl in live_frags:
                for s in range(len(fj) + 1):
                    for e in range(s, len(fj) + 1):
                        if (s, e) != (0, len(fj)) and len(fj) == 0:
                            continue
                        res.transitions += 1
                        ins = list(fj[s:e])
                        want = cexpr.matches(tm.regex, pre + [x["type"] for x in ins] + suf) and \
                            marks_allowed(model, tname, ins)
                        try:
                            if (s, e) == (0, len(fj)):
                                got = node.can_replace(frm, to, fl)
                            else:
                                got = node.can_replace(frm, to, fl, s, e)
                        except Exception as ex:  # noqa: BLE001
                            res.violate("c07.can_replace.raises",
                                        {**base, "from": frm, "to": to, "fragment": list(fj), "start": s, "end": e},
                                        common.exc_str(ex), size=size)
                            continue
                        res.validated += 1
                        if got:
                            res.nontrivial += 1
                        if bool(got) != want:
                            res.violate("c07.can_replace",
                                        {**base, "from": frm, "to": to, "fragment": list(fj), "start": s, "end": e},
                                        got, want, size=size + len(fj))
            # default replacement = empty fragment
            res.transitions += 1
            want = cexpr.matches(tm.regex, pre + suf)
            try:
                got = node.can_replace(frm, to)
                if bool(got) != want:
                    res.violate("c07.can_replace.default", {**base, "from": frm, "to": to}, got, want, size=size)
            except Exception as ex:  # noqa: BLE001
                res.violate("c07.can_replace.raises", {**base, "from": frm, "to": to}, common.exc_str(ex), size=size)
            # can_replace_with for every type x a few mark sets
            for t2 in model.type_names:
                for ms in _mark_sets(c):
                    res.transitions += 1
                    want = cexpr.matches(tm.regex, pre + [t2] + suf) and \
                        all(model.allows_mark(tname, m["type"]) for m in ms)
                    try:
                        got = node.can_replace_with(frm, to, c.schema.nodes[t2], c.marks(ms) if ms is not None else None)
                    except Exception as ex:  # noqa: BLE001
                        res.violate("c07.can_replace_with.raises",
                                    {**base, "from": frm, "to": to, "type": t2, "marks": ms}, common.exc_str(ex), size=size)
                        continue
                    res.validated += 1
                    if got:
                        res.nontrivial += 1
                    if bool(got) != want:
                        res.violate("c07.can_replace_with", {**base, "from": frm, "to": to, "type": t2, "marks": ms},
                                    got, want, size=size)
    # can_append with every pool node and with nodes of the same document
    for oj, ol in [*zip(pool, live_pool), *(extra_others or [])]:
        if oj["type"] == "text":
            continue
        res.transitions += 1
        okids = oj.get("content") or []
        if okids:
            want = cexpr.matches(tm.regex, ktypes + [k["type"] for k in okids]) and marks_allowed(model, tname, okids)
        else:
            want = model.compatible_content(tname, oj["type"])
        try:
            got = node.can_append(ol)
        except Exception as ex:  # noqa: BLE001
            res.violate("c07.can_append.raises", {**base, "other": oj}, common.exc_str(ex), size=size)
            continue
        res.validated += 1
        if bool(got) != want:
            res.violate("c07.can_append", {**base, "other": oj}, got, want, size=size)
        # empty sibling of the same type as other
        if okids and not model.types[oj["type"]].is_leaf:
            ej = {k: v for k, v in oj.items() if k != "content"}
            try:
                el = raw_node(c, ej)
                got = node.can_append(el)
                want = model.compatible_content(tname, oj["type"])
                res.transitions += 1
                if bool(got) != want:
                    res.violate("c07.can_append.empty", {**base, "other": ej}, got, want, size=size)
            except Exception as ex:  # noqa: BLE001
                res.violate("c07.can_append.raises", {**base, "other": ej}, common.exc_str(ex), size=size)


def _mark_sets(c):
    names = c.model.mark_names
    out = [[]]
    if names:
        out.append([gen_docs.mk(c.model, names[-1], _req(c.model, names[-1]))])
    if len(names) > 1:
        out.append([gen_docs.mk(c.model, names[1], _req(c.model, names[1]))])
    return out


def _req(model, name):
    return {a: "u" for a in model.marks[name].required_attrs} or None


def _spec(c):
    return c.spec if c.id.startswith(("fm", "fg")) else None


def check_validity(c, j, res, size, tag):
    """check() and valid_content on an arbitrary (possibly invalid) tree built with raw constructors."""
    model = c.model
    case = {"schema": c.id, "spec": _spec(c), "tree": j, "how": tag}
    try:
        node = raw_node(c, j)
    except Exception as e:  # noqa: BLE001
        res.violate("c07.harness.build", case, common.exc_str(e), size=size)
        return
    want_problem = validity.node_problem(model, j)
    res.transitions += 1
    try:
        node.check()
        got_ok = True
    except ValueError:
        got_ok = False
    except Exception as e:  # noqa: BLE001
        res.violate("c07.check.raises", case, common.exc_str(e), fingerprint="c07.check.raises:" + common.exc_fp(e),
                    size=size)
        return
    res.validated += 1
    res.outcome("check:" + ("accepted" if got_ok else "rejected"))
    if got_ok:
        res.nontrivial += 1
    if got_ok != (want_problem is None):
        res.violate("c07.check", case, "accepted" if got_ok else "rejected", want_problem or "valid", size=size)
    # valid_content of this node's type on its own content (shallow)
    if j["type"] != "text":
        res.transitions += 1
        want = validity.shallow_problem(model, j) is None and not (model.types[j["type"]].is_leaf and j.get("content"))
        try:
            got = node.type.valid_content(node.content)
        except Exception as e:  # noqa: BLE001
            res.violate("c07.valid_content.raises", case, common.exc_str(e), size=size)
            return
        if bool(got) != want:
            res.violate("c07.valid_content", case, got, want, size=size)
        # checked construction fails exactly when the content is invalid
        t = node.type
        kids = [node.child(i) for i in range(node.child_count)]
        for how in ("create_checked", "schema.node"):
            res.transitions += 1
            try:
                if how == "create_checked":
                    t.create_checked(node.attrs, kids, node.marks)
                else:
                    c.schema.node(t.name, node.attrs, kids, node.marks)
                made = True
            except ValueError:
                made = False
            except Exception as e:  # noqa: BLE001
                res.violate("c07.create_checked.raises", {**case, "via": how}, common.exc_str(e), size=size)
                continue
            # Fragment.from_ merges adjacent same-markup text, which cannot change the type sequence
            if made != want:
                res.violate("c07.create_checked", {**case, "via": how}, "created" if made else "rejected", want, size=size)


def all_trees(c, sc, max_nodes):
    """All trees (valid or not) with <= max_nodes nodes below the top node over the scope vocabulary."""
    model = c.model
    types = [t for t in sc["types"]]
    marksets = sc.get("marksets", [[]])[:2]
    node_marks = sc.get("node_marks", {})

    def variants(t):
        tm = model.types[t]
        if tm.is_text:
            return [{"type": "text", "text": "a", **({"marks": ms} if ms else {})} for ms in marksets]
        attrs_list = sc.get("attrs", {}).get(t)
        if attrs_list:
            attrs_list = [model.full_attrs(t, attrs_list[0])]
        elif tm.required_attrs:
            return []
        else:
            attrs_list = [dict(tm.default_attrs)] if tm.attrs else [None]
        out = []
        mlist = (marksets if tm.is_inline else node_marks.get(t, [[]]))[:2]
        for a in attrs_list:
            for ms in mlist:
                n = {"type": t}
                if a:
                    n["attrs"] = a
                if ms:
                    n["marks"] = ms
                out.append(n)
        return out

    from functools import lru_cache

    @lru_cache(maxsize=None)
    def forests(n):
        """all child lists with exactly n nodes in total"""
        if n == 0:
            return [[]]
        out = []
        for first in range(1, n + 1):
            for head in trees(first):
                for tail in forests(n - first):
                    if head["type"] == "text" and tail and tail[0]["type"] == "text" and \
                            jkey(head.get("marks") or []) == jkey(tail[0].get("marks") or []):
                        continue
                    out.append([head, *tail])
        return out

    @lru_cache(maxsize=None)
    def trees(n):
        out = []
        for t in types:
            if t == model.top:
                continue
            tm = model.types[t]
            for v in variants(t):
                if tm.is_leaf or tm.is_text:
                    if n == 1:
                        out.append(v)
                else:
                    for kids in forests(n - 1):
                        x = dict(v)
                        if kids:
                            x["content"] = kids
                        out.append(x)
        return out

    top_attrs = model.types[model.top].default_attrs
    res = []
    for n in range(0, max_nodes + 1):
        for kids in forests(n):
            d = {"type": model.top}
            if top_attrs:
                d["attrs"] = dict(top_attrs)
            if kids:
                d["content"] = kids
            res.append(d)
    return res


def mutations(c, sc, d):
    """Single-fault mutations of a valid document (JSON)."""
    model = c.model
    out = []
    types = [t for t in sc["types"] if t != model.top]
    minimal = {}
    for p in pool_nodes(c, sc):
        minimal.setdefault(p["type"], p)
    all_marks = []
    for name in model.mark_names[:3]:
        all_marks.append(gen_docs.mk(model, name, _req(model, name)))

    def rec(node, path):
        kids = node.get("content") or []
        for i, k in enumerate(kids):
            # remove child i
            yield path, node, kids[:i] + kids[i + 1:], f"remove@{path}/{i}"
            # duplicate child i (not for text: would not be text-normal)
            if k["type"] != "text":
                yield path, node, kids[: i + 1] + [k] + kids[i + 1:], f"dup@{path}/{i}"
            # retype child i
            for t in types:
                if t != k["type"] and t in minimal and not (t == "text" and ((i and kids[i - 1]["type"] == "text") or (i + 1 < len(kids) and kids[i + 1]["type"] == "text"))):
                    yield path, node, kids[:i] + [minimal[t]] + kids[i + 1:], f"retype@{path}/{i}->{t}"
            # add a mark to child i (allowed or not), duplicate / permute its marks
            for m in all_marks:
                ms = k.get("marks") or []
                if not rmk.in_set(m, ms):
                    yield path, node, kids[:i] + [{**k, "marks": rmk.canon_set(model, [*ms, m])}] + kids[i + 1:], f"mark+{m['type']}@{path}/{i}"
                else:
                    yield path, node, kids[:i] + [{**k, "marks": [*ms, m]}] + kids[i + 1:], f"markdup@{path}/{i}"
            ms = k.get("marks") or []
            if len(ms) >= 2:
                yield path, node, kids[:i] + [{**k, "marks": list(reversed(ms))}] + kids[i + 1:], f"markperm@{path}/{i}"
            yield from rec(k, path + [i])

    def rebuild(root, path, new_kids):
        if not path:
            x = {k: v for k, v in root.items() if k != "content"}
            if new_kids:
                x["content"] = new_kids
            return x
        kids = list(root.get("content") or [])
        kids[path[0]] = rebuild(kids[path[0]], path[1:], new_kids)
        x = dict(root)
        x["content"] = kids
        return x

    for path, node, new_kids, tag in rec(d, []):
        # keep text-normal (adjacent same-mark text would be a different kind of fault)
        okk = True
        for a, b in zip(new_kids, new_kids[1:]):
            if a["type"] == "text" and b["type"] == "text" and jkey(a.get("marks") or []) == jkey(b.get("marks") or []):
                okk = False
        if okk:
            out.append((rebuild(d, path, new_kids), tag))
    return out


WIDE_ITEMS = ["a", "b", "c", "b*", "c?", "a{1,3}", "b{0,4}", "(c b){0,4}", "(a | b){2,3}", "c{3}", "a+", "(a b)*"]


def check_wide(u, res):
    """Schemas whose top content expression is a sequence of up to 4 WIDE_ITEMS: validity of every child sequence
    up to 6 over {a, b, c} must agree with the reference (large automata: many subset states)."""
    from ..ref.schema_model import SchemaModel

    idx = 0
    n = 0
    for ln in (1, 2, 3, 4):
        for combo in itertools.product(WIDE_ITEMS, repeat=ln):
            if idx % u["nblocks"] != u["block"]:
                idx += 1
                continue
            idx += 1
            expr = " ".join(combo)
            variants = [{"a": {}, "b": {}, "c": {}}]
            if ln <= 2:
                # the node name `a` is also a GROUP name of b and c: the exactly-named type wins
                variants.append({"a": {}, "b": {"group": "a"}, "c": {"group": "a x"}})
            for others in variants:
                _wide_one(expr, others, u, res)
            n += 1
    res.sample({"kind": "wide", "expr": " ".join(WIDE_ITEMS[:3])})
    res.scopes.append({"unit": u["name"], "expressions": n, "completed": True})


def _wide_one(expr, others, u, res):
    from ..ref.schema_model import SchemaModel

    if True:
        if True:
            spec = {"nodes": {"doc": {"content": expr}, **{k: dict(v) for k, v in others.items()}, "text": {}}, "marks": {}}
            case0 = {"expr": expr} if not others["b"] else {"expr": expr, "nodes": others}
            engine.kick(20)
            try:
                schema = adapters.Schema(spec)
            except Exception as e:  # noqa: BLE001
                res.violate("c07.wide.schema-rejected", case0, common.exc_str(e), size=len(expr))
                return
            model = SchemaModel(spec)
            doc_t = schema.nodes["doc"]
            regex = model.types["doc"].regex
            kids = {t: schema.nodes[t].create() for t in "abc"}
            res.states += 1
            for L in range(0, (5 if u.get("quick") else 6) + 1):
                for seq in itertools.product("abc", repeat=L):
                    res.transitions += 1
                    want = cexpr.matches(regex, list(seq))
                    frag = adapters.Fragment([kids[t] for t in seq])
                    got = doc_t.valid_content(frag)
                    if bool(got) != want:
                        res.violate("c07.wide.valid_content", {**case0, "children": list(seq)}, got, want, size=len(expr) + L)
                        break
                    try:
                        doc_t.create_checked(None, [kids[t] for t in seq])
                        made = True
                    except ValueError:
                        made = False
                    if made != want:
                        res.violate("c07.wide.create_checked", {**case0, "children": list(seq)}, made, want, size=len(expr) + L)
                        break


def run_unit(u):
    res = engine.UnitResult(PROPERTY_ID)
    engine.arm()
    if u["kind"] == "wide":
        check_wide(u, res)
        engine.disarm()
        res.evaluations = res.transitions
        return res
    if u["kind"] == "docs":
        c, sc, docs = common.unit_docs(u)
        pool = pool_nodes(c, sc)
        live_pool = [raw_node(c, p) for p in pool]
        seen_nodes = set()
        nmut = 0
        for d in docs:
            engine.kick(60)
            res.states += 1
            size = common.doc_size(c.model, d)
            check_validity(c, d, res, size, "valid")
            for mj, tag in mutations(c, sc, d):
                check_validity(c, mj, res, size, tag)
                nmut += 1
            stack = [d]
            fresh = []
            while stack:
                x = stack.pop()
                k = jkey(x)
                if k not in seen_nodes:
                    seen_nodes.add(k)
                    fresh.append(x)
                stack.extend(x.get("content") or [])
            for x in fresh:
                # `other` candidates for can_append: the non-text nodes of this document (marked content included)
                others = [(o, raw_node(c, o)) for o in fresh if o["type"] != "text"][:12]
                check_predicates_on_node(c, x, pool, live_pool, res, size, others)
        if docs:
            res.sample({"schema": c.id, "doc": docs[-1], "pool": pool[:3]})
        res.scopes.append({"unit": u["name"], "docs": len(docs), "mutants": nmut, "distinct_nodes": len(seen_nodes),
                           "pool": len(pool), "completed": True})
    elif u["kind"] == "trees":
        c, sc, _docs = common.scope_docs(u["sid"], u["family"], 4)
        trees = all_trees(c, sc, u["nodes"])
        n = 0
        for i in range(u["block"], len(trees), u["nblocks"]):
            engine.kick(20)
            check_validity(c, trees[i], res, i, "tree")
            res.states += 1
            n += 1
        if trees:
            res.sample({"schema": c.id, "tree": trees[min(len(trees) - 1, 50 + u["block"])]})
        res.scopes.append({"unit": u["name"], "trees": n, "of": len(trees), "completed": True})
    else:
        fam = dict(schemas.mark_family_specs([("A", "B", "C")]))
        for sid in u["ids"]:
            c = adapters.Ctx(sid, fam[sid])
            model = c.model
            marks = [{"type": "A", "attrs": {"id": 0}}, {"type": "A", "attrs": {"id": 1}}, {"type": "B", "attrs": {}},
                     {"type": "C", "attrs": {}}]
            lists = [[]]
            for r in (1, 2):
                for combo in itertools.permutations(range(4), r):
                    lists.append([marks[i] for i in combo])
            for parent in ["paragraph", "plain", "p_all", "p_A", "p_BC", "p_grp", "p_both"]:
                for ms in lists:
                    for child in ({"type": "text", "text": "a"}, {"type": "atom"}):
                        kid = dict(child)
                        if ms:
                            kid["marks"] = ms
                        d = {"type": "doc", "content": [{"type": parent, "content": [kid]}]}
                        engine.kick(20)
                        check_validity(c, d, res, len(ms), "fmarks")
                        res.states += 1
            # block containers that name specific marks: marked block children
            for box in ("box", "box_A", "box_grp"):
                for ms in lists:
                    blk = {"type": "paragraph"}
                    if ms:
                        blk["marks"] = ms
                    d = {"type": "doc", "content": [{"type": box, "content": [blk]}]}
                    engine.kick(20)
                    check_validity(c, d, res, len(ms), "fmarks-box")
                    res.states += 1
        res.sample({"schema": u["ids"][0] if u["ids"] else None, "family": "F-marks"})
        res.scopes.append({"unit": u["name"], "configurations": len(u["ids"]), "completed": True})
    engine.disarm()
    res.evaluations = res.transitions
    return res


def replay(case):
    res = engine.UnitResult(PROPERTY_ID)
    if "expr" in case:
        engine.arm()
        _wide_one(case["expr"], case.get("nodes") or {"a": {}, "b": {}, "c": {}}, {"quick": True}, res)
        engine.disarm()
        return res.violations
    c = adapters.Ctx(case["schema"], case["spec"]) if case.get("spec") else adapters.ctx(case["schema"])
    if "tree" in case:
        check_validity(c, case["tree"], res, 0, case.get("how", "replay"))
    else:
        # predicate case: re-run all predicates on the node with the scope pool of its schema
        from ..universe import scopes

        fam = scopes.families_for(case["schema"])[0] if not case.get("spec") else None
        sc = scopes.scope(c.model, fam, case["schema"], 6) if fam else {"types": list(c.model.type_names)}
        pool = pool_nodes(c, sc)
        check_predicates_on_node(c, case["node"], pool, [raw_node(c, p) for p in pool], res, 0)
    return res.violations
