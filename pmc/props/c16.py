"""C16 — a merged step is equivalent to the two steps it replaces (explorer E1)."""

from __future__ import annotations

from .. import adapters, engine
from ..ref import tokens as tk
from ..universe import gen_steps
from . import c01, common

PROPERTY_ID = "C16"
jkey = tk.jkey


def describe():
    return {
        "rule": "scope documents x ordered step pairs (s1, s2): s1 every applying ReplaceStep (all ranges x slice pool), "
                "s2 every ReplaceStep that applies to s1(doc) and touches s1's range on either side (all other pairs on "
                "a smaller scope, where merge must simply be consistent); all pairs of Add/RemoveMarkStep over all "
                "ranges and marks. Every merged step is applied to EVERY document of the scope's document pool on "
                "which s1;s2 applies. non-trivial = pairs for which merge returned a step (counted)",
        "assumptions": [
            "bounded scopes and slice pools (open and closed slices cut by the reference)",
            "equality of results = JSON equality of documents",
        ],
        "explanation": "E1 exhaustive step pairs with a differential oracle (merged vs sequential application)",
    }


def units(tier, seed):
    q = tier == "quick"
    specs = [
        {"sid": "basic", "family": "blocks", "size": 4 if q else 5, "donor": ("blocks", 3 if q else 4), "max_slices": 30 if q else 60},
        {"sid": "basic", "family": "inline_s", "size": 4 if q else 5, "donor": ("inline_s", 3), "max_slices": 30 if q else 60},
        {"sid": "list", "family": "lists", "size": 10 if q else 12, "donor": ("lists", 8), "max_slices": 24 if q else 50},
        {"sid": "basic", "family": "blocks2", "size": 4 if q else 5, "donor": ("blocks2", 4), "max_slices": 30 if q else 60},
        {"sid": "basic", "family": "links", "size": 4 if q else 5, "donor": ("links", 3), "max_slices": 24 if q else 50},
        # three and more adjacent text nodes that a merged mark step fuses at once
        # a merged mark step that spans a paragraph and a code block (marks: "")
        {"sid": "basic", "family": "pcode", "size": 6 if q else 7, "donor": ("pcode", 3), "max_slices": 6 if q else 12},
        {"sid": "basic", "family": "marks3", "size": 5 if q else 6, "donor": ("marks3", 3), "max_slices": 8 if q else 16},
    ]
    extra = [
        {"sid": "table", "family": "table", "size": 10 if q else 12, "donor": ("table", 10), "max_slices": 20 if q else 40},
        {"sid": "iso", "family": "iso", "size": 6 if q else 7, "donor": ("iso", 5), "max_slices": 20 if q else 40},
        {"sid": "struct", "family": "struct", "size": 5 if q else 6, "donor": ("struct", 5), "max_slices": 20 if q else 40},
        {"sid": "strict_hb", "family": "strict", "size": 8 if q else 9, "donor": ("strict", 8), "max_slices": 20 if q else 40},
        {"sid": "list", "family": "astral", "size": 4 if q else 5, "donor": ("astral", 4), "max_slices": 20 if q else 40},
        {"sid": "topmarks", "family": "topmarks", "size": 4, "donor": ("topmarks", 3), "max_slices": 20 if q else 40},
    ]
    for sp in specs + extra:
        sp["offset"] = seed
    if q:
        specs.append(extra[seed % len(extra)])
    else:
        specs.extend(extra)
    out = common.doc_units(PROPERTY_ID, specs, per_scope_blocks=16)
    return out


def pick_pool(pool, max_slices, offset):
    if len(pool) <= max_slices:
        return pool
    stride = -(-len(pool) // max_slices)
    return [pool[0], *pool[1 + (offset % stride)::stride]]


def apply_doc(step, node):
    out = c01.apply_outcome(step, node)
    return out[1] if out[0] == "doc" else None


def check_merged(c, s1, s2, m, sd1, sd2, doc_pool, res, size):
    """m must behave like s1;s2 on every pool document where s1;s2 applies."""
    for dj, dn in doc_pool:
        a = apply_doc(s1, dn)
        if a is None:
            continue
        b = apply_doc(s2, a)
        if b is None:
            continue
        res.transitions += 1
        out = c01.apply_outcome(m, dn)
        res.validated += 1
        case = {"schema": c.id, "doc": dj, "s1": sd1, "s2": sd2, "merged": adapters.step_desc(m)}
        if out[0] != "doc":
            res.violate("c16.merged-fails", case, out[0] + ": " + str(out[1])[:200], jkey(b.to_json())[:300],
                        fingerprint="c16.merged-fails:" + sd1["stepType"], size=size)
            return False
        if jkey(out[1].to_json()) != jkey(b.to_json()):
            res.violate("c16.merged-differs", case, jkey(out[1].to_json())[:300], jkey(b.to_json())[:300],
                        fingerprint="c16.merged-differs:" + sd1["stepType"], size=size)
            return False
        if out[1].content.size - dn.content.size != b.content.size - dn.content.size:
            res.violate("c16.size-delta", case, out[1].content.size, b.content.size, size=size)
            return False
    return True


def run_unit(u):
    res = engine.UnitResult(PROPERTY_ID)
    c, sc, docs = common.unit_docs(u)
    model = c.model
    full_pool = common.pool_slices(u["sid"], u["donor"][0], u["donor"][1])
    pool = pick_pool(full_pool, u["max_slices"], u.get("offset", 0))
    live_pool = [(sl, c.slice(sl)) for sl in pool]
    _, _, all_docs = common.scope_docs(u["sid"], u["family"], u["size"])
    step_d = max(1, len(all_docs) // 12)
    pool_docs = [(dj, c.node(dj)) for dj in all_docs[::step_d][:12]]
    marks = gen_steps.schema_marks(model, 3)
    live_marks = [(m, c.mark(m)) for m in marks]
    RS = adapters.ReplaceStep
    engine.arm()
    npairs = 0
    for d in docs:
        node = c.node(d)
        n = node.content.size
        res.states += 1
        dp = [(d, node), *pool_docs]
        for a in range(n + 1):
            for b in range(a, n + 1):
                for sl1, l1 in live_pool:
                    s1 = RS(a, b, l1)
                    d1 = apply_doc(s1, node)
                    if d1 is None:
                        continue
                    n1 = d1.content.size
                    sd1 = {"stepType": "replace", "from": a, "to": b, "slice": sl1, "structure": False}
                    engine.kick(20)
                    size1 = l1.size
                    cands = []
                    # s2 directly after s1's inserted content, or directly before s1's range
                    f2 = a + size1
                    for t2 in range(f2, n1 + 1):
                        cands.append((f2, t2))
                    for f3 in range(0, a + 1):
                        if (f3, a) not in cands:
                            cands.append((f3, a))
                    for (x, y) in cands:
                        for sl2, l2 in live_pool:
                            s2 = RS(x, y, l2)
                            res.transitions += 1
                            try:
                                m = s1.merge(s2)
                            except Exception as e:  # noqa: BLE001
                                res.violate("c16.merge.raises", {"schema": c.id, "doc": d, "s1": sd1,
                                                                 "s2": {"stepType": "replace", "from": x, "to": y, "slice": sl2}},
                                            common.exc_str(e), fingerprint="c16.merge.raises:" + common.exc_fp(e), size=n)
                                continue
                            npairs += 1
                            if m is None:
                                continue
                            if apply_doc(s2, d1) is None:
                                continue  # the pair does not apply here; other pool documents decide
                            res.nontrivial += 1
                            sd2 = {"stepType": "replace", "from": x, "to": y, "slice": sl2, "structure": False}
                            check_merged(c, s1, s2, m, sd1, sd2, dp, res, n)
                    # structure-flagged steps never merge
                    s1s = RS(a, b, l1, True)
                    s2s = RS(a + size1, a + size1, live_pool[0][1])
                    if s1s.merge(s2s) is not None or s1.merge(RS(a + size1, a + size1, live_pool[0][1], True)) is not None:
                        res.violate("c16.structure-steps-merged", {"schema": c.id, "doc": d, "s1": sd1}, "merged", None, size=n)
        # mark steps: all pairs over all ranges and marks
        R = [(a, b) for a in range(n + 1) for b in range(a, n + 1)]
        for kind1 in ("addMark", "removeMark"):
            for kind2 in ("addMark", "removeMark"):
                for (a, b) in R:
                    for (x, y) in R:
                        for mj1, ml1 in live_marks:
                            for mj2, ml2 in live_marks[:2]:
                                s1 = (adapters.AddMarkStep if kind1 == "addMark" else adapters.RemoveMarkStep)(a, b, ml1)
                                s2 = (adapters.AddMarkStep if kind2 == "addMark" else adapters.RemoveMarkStep)(x, y, ml2)
                                res.transitions += 1
                                m = s1.merge(s2)
                                npairs += 1
                                if m is None:
                                    continue
                                res.nontrivial += 1
                                sd1 = {"stepType": kind1, "from": a, "to": b, "mark": mj1}
                                sd2 = {"stepType": kind2, "from": x, "to": y, "mark": mj2}
                                check_merged(c, s1, s2, m, sd1, sd2, [(d, node)], res, n)
    engine.disarm()
    if docs:
        res.sample({"schema": c.id, "doc": docs[-1], "s1": {"stepType": "replace", "from": 0, "to": 0, "slice": pool[-1]},
                    "s2": "every adjacent ReplaceStep"})
    res.scopes.append({"unit": u["name"], "docs": len(docs), "slices": len(pool), "pairs": npairs,
                       "pool_docs": len(pool_docs), "completed": True})
    res.evaluations = res.transitions
    return res


def replay(case):
    res = engine.UnitResult(PROPERTY_ID)
    c = adapters.ctx(case["schema"])
    s1 = adapters.build_step(c, case["s1"])
    s2 = adapters.build_step(c, case["s2"])
    m = s1.merge(s2)
    if m is not None:
        d = case["doc"]
        check_merged(c, s1, s2, m, case["s1"], case["s2"], [(d, c.node(d))], res, 0)
    return res.violations
