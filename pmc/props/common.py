"""Helpers shared by the property modules."""

from __future__ import annotations

import json

from .. import adapters, engine
from ..ref import slices as rsl
from ..ref import tokens as tk
from ..ref import validity
from ..universe import gen_docs, scopes

_doc_cache: dict = {}


def scope_docs(sid: str, family: str, size: int, **over):
    """(ctx, scope, docs) — all documents of the scope, smallest first (cached per process)."""
    c = adapters.ctx(sid)
    key = (sid, family, size, json.dumps(over, sort_keys=True, default=repr))
    if key not in _doc_cache:
        sc = scopes.scope(c.model, family, sid, size, **over)
        _doc_cache[key] = (sc, gen_docs.gen_docs(c.model, sc))
    sc, docs = _doc_cache[key]
    return c, sc, docs


def blocks(n_items: int, n_blocks: int):
    """Deterministic partition of range(n_items) into <= n_blocks interleaved index sets
    (interleaving balances sizes: documents are ordered smallest first)."""
    n_blocks = max(1, min(n_blocks, n_items))
    return [list(range(i, n_items, n_blocks)) for i in range(n_blocks)]


def doc_units(prop, specs, per_scope_blocks=16):
    """specs: list of dicts with sid, family, size (+ anything).  One unit per (scope, block)."""
    out = []
    for sp in specs:
        nb = sp.get("blocks", per_scope_blocks)
        for b in range(nb):
            u = dict(sp)
            u["block"] = b
            u["nblocks"] = nb
            u["name"] = f"{sp['sid']}/{sp['family']}<={sp['size']}#{b}/{nb}" + (("/" + sp["tag"]) if sp.get("tag") else "")
            out.append(u)
    return out


def unit_docs(u):
    over = u.get("over") or {}
    c, sc, docs = scope_docs(u["sid"], u["family"], u["size"], **over)
    idx = range(u["block"], len(docs), u["nblocks"])
    return c, sc, [docs[i] for i in idx]


def classify_exc(e: BaseException) -> str:
    if isinstance(e, engine.Watchdog):
        return "hang"
    if isinstance(e, ValueError):
        return "valueerror"
    return "internal"


def exc_str(e: BaseException) -> str:
    return f"{type(e).__name__}: {str(e)[:160]} @ {adapters.exc_site(e)}"


def exc_fp(e: BaseException) -> str:
    return f"{type(e).__name__}@{adapters.exc_site(e)}"


def doc_size(model, d) -> int:
    return tk.content_size(model, d.get("content"))


def content_json(node) -> list:
    """to_json() content of a live node as a list."""
    return node.content.to_json() or []


def pool_slices(sid: str, family: str, size: int, extra_docs=None, **over):
    """All reference slices of the donor scope (+ Slice.empty first)."""
    c, sc, docs = scope_docs(sid, family, size, **over)
    key = ("pool", sid, family, size, json.dumps(over, sort_keys=True, default=repr))
    if key not in _doc_cache:
        sl = rsl.all_slices(c.model, docs + (extra_docs or []))
        _doc_cache[key] = [{"content": [], "openStart": 0, "openEnd": 0}, *sl]
    return _doc_cache[key]


def valid_doc_conformance(c, d, res):
    """Standing conformance check model <-> implementation for a generated document:
    from_json -> to_json round trip, Node.check() and reference validity agree."""
    node = c.node(d)
    j = node.to_json()
    if tk.jkey(j) != tk.jkey(d):
        res.violate("conformance.json", {"schema": c.id, "doc": d}, tk.jkey(j)[:300], tk.jkey(d)[:300])
    try:
        node.check()
        ok = True
    except ValueError:
        ok = False
    ref_ok = validity.is_valid(c.model, d)
    if ok != ref_ok:
        res.violate("conformance.check", {"schema": c.id, "doc": d}, f"check()={ok}", f"reference valid={ref_ok}")
    if node.content.size != tk.content_size(c.model, d.get("content")):
        res.violate("conformance.size", {"schema": c.id, "doc": d}, node.content.size)
    res.validated += 1
    return node


# ---------------------------------------------------------------------------
# isolation between Schema instances (schemas.pair_specs)

def pairseq_units(prop, size, donor_size, **kw):
    """One unit per creation order.  Each runs the property's ordinary unit body on the first-created member of the
    pair, then on the second, then on the first again, IN ONE PROCESS: operations on one Schema instance must not
    influence what the same operations (same JSON) do under the other instance."""
    out = []
    for tag in ("1", "2"):
        out.append({"kind": "pairseq", "tag": tag, "family": "pair", "size": size, "donor": ("pair", donor_size),
                    "name": f"pairseq/{tag}", **kw})
    return out


def run_pairseq(u, run_unit, prop):
    from ..universe import schemas

    order = schemas.PAIR_ORDERS[u["tag"]]
    subs = []
    for i, k in enumerate((order[0], order[1], order[0])):
        sub = {kk: v for kk, v in u.items() if kk not in ("kind", "tag")}
        sub.update({"sid": f"pair{k}{u['tag']}", "block": 0, "nblocks": 1, "name": f"{u['name']}/{i}:{k}"})
        if u.get("subkind"):
            sub["kind"] = u["subkind"]
        subs.append(sub)
    results = [run_unit(sub) for sub in subs]
    m = engine.merge(subs, results, 0)
    m.prop_id = prop
    m.notes = {}
    m.evaluations = sum(r.evaluations for r in results)
    return m
