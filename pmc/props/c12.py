"""C12 — structure helpers approve only edits that then succeed and keep content intact (explorer E1)."""

from __future__ import annotations

from .. import adapters, engine, ops
from ..ref import tokens as tk
from ..ref import validity
from ..ref import slices as rsl
from ..universe import gen_docs, schemas, scopes
from . import common

PROPERTY_ID = "C12"
jkey = tk.jkey
structure = ops.structure
NTA = ops.NodeTypeWithAttrs
Transform = adapters.Transform
Slice = adapters.Slice
Fragment = adapters.Fragment
ZOO = ("basic", "list", "strict_hb", "title", "fixed", "struct", "iso", "table", "grid")


def describe():
    return {
        "rule": "scope documents x every position: can_split for every depth (incl. one too deep) and types_after; "
                "can_join; join_point both directions; every block range of every position pair -> lift_target and "
                "find_wrapping for every node type; insert_point for every type; drop_point for every pool slice; "
                "each approval is followed by performing the edit; split/join/lift/wrap are also performed unapproved "
                "(every target depth / wrapper type) to check that they fail cleanly or keep the leaf sequence. "
                "non-trivial = approvals whose edit was performed (counted)",
        "assumptions": [
            "bounded scopes; pool slices cut by the reference from donor documents",
            "for the F-gen family only 'a performed edit that returns is valid and keeps the leaf sequence' is checked",
            "drop_point returning None more often than upstream is a completeness loss, not a violation",
        ],
        "explanation": "E1 exhaustive helper calls, each approval validated by performing the edit on the real Transform",
    }


def units(tier, seed):
    q = tier == "quick"
    specs = [
        {"sid": "list", "family": "lists", "size": 14 if q else 18, "donor": ("lists", 9), "max_slices": 40 if q else 150},
        {"sid": "basic", "family": "blocks", "size": 7 if q else 8, "donor": ("blocks", 4), "max_slices": 40 if q else 150},
        {"sid": "list", "family": "lists_q", "size": 11 if q else 13, "donor": ("lists_q", 8), "max_slices": 40 if q else 150},
        {"sid": "struct", "family": "struct", "size": 8 if q else 9, "donor": ("struct", 6), "max_slices": 40 if q else 150},
        {"sid": "iso", "family": "iso", "size": 8 if q else 10, "donor": ("iso", 7), "max_slices": 30 if q else 100},
        {"sid": "table", "family": "table", "size": 12 if q else 18, "donor": ("table", 12), "max_slices": 30 if q else 100},
        {"sid": "basic", "family": "inline_s", "size": 5 if q else 6, "donor": ("inline_s", 4), "max_slices": 30 if q else 100},
        {"sid": "basic", "family": "long", "size": 8 if q else 10, "donor": ("long", 5), "max_slices": 20 if q else 60},
        {"sid": "grid", "family": "table", "size": 12 if q else 16, "donor": ("table", 10), "max_slices": 20 if q else 60},
    ]
    extra = [
        {"sid": "strict_hb", "family": "strict", "size": 10 if q else 12, "donor": ("strict", 9), "max_slices": 30 if q else 100},
        {"sid": "title", "family": "title", "size": 10 if q else 14, "donor": ("title", 9), "max_slices": 30 if q else 100},
        {"sid": "fixed", "family": "fixed", "size": 10 if q else 16, "donor": ("fixed", 10), "max_slices": 30 if q else 100},
        {"sid": "iso", "family": "iso_list", "size": 10 if q else 12, "donor": ("iso_list", 8), "max_slices": 30 if q else 100},
    ]
    for sp in specs + extra:
        sp["offset"] = seed
    if q:
        specs.append(extra[seed % len(extra)])
    else:
        specs.extend(extra)
    out = common.doc_units(PROPERTY_ID, specs, per_scope_blocks=8 if q else 16)
    for u in out:
        u["kind"] = "zoo"
    ids = schemas.fgen_ids()
    step = 16 if q else 4
    sel = ids[(seed % step)::step]
    nb = 16
    for b in range(nb):
        out.append({"kind": "fgen", "ids": sel[b::nb], "size": 6 if q else 7, "name": f"fgen#{b}/{nb}"})
    return out


def perform(c, node, fn):
    """Run an edit on a fresh Transform. ('ok', tr) | ('rejected', exc) | ('internal', exc)"""
    tr = Transform(node)
    try:
        fn(tr)
    except ValueError as e:
        return ("rejected", e, tr)
    except RecursionError as e:
        return ("internal", e, tr)
    except Exception as e:  # noqa: BLE001
        return ("internal", e, tr)
    return ("ok", None, tr)


def helper(res, case, size, fn, name):
    """Call a helper; internal errors (and any exception: helpers take in-range input) are violations."""
    res.transitions += 1
    try:
        return ("ok", fn())
    except engine.Watchdog:
        raise
    except Exception as e:  # noqa: BLE001
        res.violate(f"c12.{name}.raises", case, common.exc_str(e), fingerprint=f"c12.{name}.raises:" + common.exc_fp(e),
                    size=size)
        return ("exc", None)


def substantive(model, sl):
    """The content drop_point inspects (the innermost node along the slice's open start) is non-empty:
    only then does an approval promise that something can be placed."""
    cur = sl.get("content") or []
    for _ in range(sl.get("openStart", 0)):
        if not cur:
            return False
        cur = cur[0].get("content") or []
    return bool(cur)


class Checker:
    def __init__(self, c, d, res, strict):
        self.c = c
        self.d = d
        self.res = res
        self.strict = strict  # zoo: approvals must succeed; fgen: only (c)
        self.model = c.model
        self.node = c.node(d)
        self.T = tk.doc_tokens(c.model, d)
        self.L = tk.leaf_seq(self.T)
        self.n = len(self.T)
        self.base = {"schema": c.id, "spec": c.spec if c.id.startswith("fg") else None, "doc": d}

    def after_edit(self, name, case, out, approved, keep_leaves=True):
        """Common post-conditions of a performed edit."""
        res = self.res
        status, exc, tr = out
        res.outcome(f"{name}:{'approved' if approved else 'unapproved'}:{status}")
        if status == "internal":
            res.violate(f"c12.{name}.internal-error", case, common.exc_str(exc),
                        fingerprint=f"c12.{name}.internal-error:" + common.exc_fp(exc), size=self.n)
            return
        if status == "rejected":
            if approved and self.strict:
                res.violate(f"c12.{name}.approved-but-fails", case, common.exc_str(exc), size=self.n)
            return
        rj = tr.doc.to_json()
        res.validated += 1
        if approved:
            res.nontrivial += 1
        prob = validity.node_problem(self.model, rj)
        if prob:
            res.violate(f"c12.{name}.invalid-result", case, prob + " :: " + jkey(rj)[:300], size=self.n)
            return
        if keep_leaves:
            L1 = tk.leaf_seq(tk.doc_tokens(self.model, rj))
            if L1 != self.L:
                res.violate(f"c12.{name}.content-changed", case, jkey(rj)[:300], "leaf sequence preserved", size=self.n)

    def run(self, pools):
        c, node, res, n = self.c, self.node, self.res, self.n
        model = self.model
        schema = c.schema
        types = [t for t in pools["types"]]
        tb = pools["textblocks"]
        # --- split / join / join_point / insert_point / drop_point per position
        for p in range(n + 1):
            engine.kick(10)
            rp = node.resolve(p)
            for depth in range(1, rp.depth + 2):
                for ta in [None, *tb[:3]]:
                    # types_after: the documented use is retyping the new textblock when a textblock is split
                    if ta is not None and (depth > 2 or not rp.parent.is_textblock):
                        continue
                    if ta is None:
                        tal = None
                    elif depth == 1:
                        tal = [NTA(schema.nodes[ta[0]], ta[1])]
                    else:
                        # depth 2: the outer "after" node keeps its type, the inner textblock is retyped
                        outer = rp.node(rp.depth - 1)
                        tal = [NTA(outer.type, outer.attrs), NTA(schema.nodes[ta[0]], ta[1])]
                    case = {**self.base, "helper": "can_split", "pos": p, "depth": depth,
                            "types_after": None if ta is None else [ta[0], ta[1]]}
                    st, ok = helper(res, case, n, lambda: structure.can_split(node, p, depth, tal), "can_split")
                    if st != "ok":
                        continue
                    if depth > rp.depth:
                        if ok:
                            res.violate("c12.can_split.too-deep-approved", case, ok, False, size=n)
                        continue
                    out = perform(c, node, lambda tr: tr.split(p, depth, tal))
                    self.after_edit("split", case, out, bool(ok))
            case = {**self.base, "helper": "can_join", "pos": p}
            st, ok = helper(res, case, n, lambda: structure.can_join(node, p), "can_join")
            if st == "ok":
                for depth in (1, 2):
                    if p - depth < 0 or p + depth > n:
                        continue
                    out = perform(c, node, lambda tr: tr.join(p, depth))
                    self.after_edit("join", {**case, "depth": depth}, out, bool(ok) and depth == 1)
            for direction in (-1, 1):
                case = {**self.base, "helper": "join_point", "pos": p, "dir": direction}
                st, jp = helper(res, case, n, lambda: structure.join_point(node, p, direction), "join_point")
                if st == "ok" and jp is not None:
                    if not (isinstance(jp, int) and 0 <= jp <= n):
                        res.violate("c12.join_point.out-of-range", case, jp, size=n)
                    else:
                        out = perform(c, node, lambda tr: tr.join(jp))
                        self.after_edit("join_point", case, out, True)
            for t in types:
                tt = schema.nodes[t]
                case = {**self.base, "helper": "insert_point", "pos": p, "type": t}
                st, ip = helper(res, case, n, lambda: structure.insert_point(node, p, tt), "insert_point")
                if st == "ok" and ip is not None:
                    if not (isinstance(ip, int) and 0 <= ip <= n):
                        res.violate("c12.insert_point.out-of-range", case, ip, size=n)
                        continue
                    filled = None
                    try:
                        filled = tt.create_and_fill({a: 1 for a in model.types[t].required_attrs} or None)
                    except Exception:  # noqa: BLE001
                        filled = None
                    if filled is None:
                        continue
                    res.transitions += 1
                    try:
                        r = node.replace(ip, ip, Slice(Fragment.from_(filled), 0, 0))
                        res.nontrivial += 1
                        prob = validity.node_problem(model, r.to_json())
                        if prob:
                            res.violate("c12.insert_point.invalid-result", case, prob, size=n)
                    except ValueError as e:
                        if self.strict:
                            res.violate("c12.insert_point.approved-but-fails", {**case, "point": ip},
                                        common.exc_str(e), size=n)
                    except Exception as e:  # noqa: BLE001
                        res.violate("c12.insert_point.internal-error", case, common.exc_str(e), size=n)
            for sl in pools["slices"]:
                if not sl["content"]:
                    continue
                lsl = c.slice(sl)
                case = {**self.base, "helper": "drop_point", "pos": p, "slice": sl}
                st, dp = helper(res, case, n, lambda: structure.drop_point(node, p, lsl), "drop_point")
                if st == "ok" and dp is not None:
                    if not (isinstance(dp, int) and 0 <= dp <= n):
                        res.violate("c12.drop_point.out-of-range", case, dp, size=n)
                        continue
                    out = perform(c, node, lambda tr: tr.replace(dp, dp, lsl))
                    self.after_edit("drop_point", {**case, "point": dp}, out, True, keep_leaves=False)
                    if out[0] == "ok" and not out[2].steps:
                        # the fitter may still give up on the whole slice (content after the position cannot
                        # follow it): a no-op is a valid, non-raising outcome - recorded as an observation only
                        res.outcome("drop_point:approved:nothing-inserted" + (":substantive" if substantive(model, sl) else ""))
                elif st == "ok":
                    res.outcome("drop_point:none")
        # --- block ranges: lift_target, find_wrapping
        seen = set()
        for p in range(n + 1):
            rp = node.resolve(p)
            for q in range(p, n + 1):
                engine.kick(10)
                case0 = {**self.base, "from": p, "to": q}
                st, rng = helper(res, {**case0, "helper": "block_range"}, n, lambda: rp.block_range(node.resolve(q)),
                                 "block_range")
                if st != "ok" or rng is None:
                    continue
                # the same node range is examined again when its end points sit ON the block boundaries of the range
                # parent instead of inside the blocks (the helpers read indices off these resolved positions)
                key = (rng.depth, rng.start, rng.end, rp.depth == rng.depth, rng.to.depth == rng.depth)
                if key in seen:
                    continue
                seen.add(key)
                case = {**case0, "helper": "lift_target"}
                st, target = helper(res, case, n, lambda: structure.lift_target(rng), "lift_target")
                if st == "ok":
                    if target is not None and not (isinstance(target, int) and 0 <= target < rng.depth):
                        res.violate("c12.lift_target.out-of-range", case, target, size=n)
                    for tg in range(0, rng.depth + 1):
                        out = perform(c, node, lambda tr: tr.lift(rng, tg))
                        self.after_edit("lift", {**case, "target": tg}, out, target is not None and tg == target)
                for t in [x for x in model.type_names if x != "text"]:
                    tt = schema.nodes[t]
                    attrs = {a: 1 for a in model.types[t].required_attrs} or None
                    case = {**case0, "helper": "find_wrapping", "type": t}
                    st, w = helper(res, case, n, lambda: structure.find_wrapping(rng, tt, attrs), "find_wrapping")
                    if st != "ok":
                        continue
                    if w is not None:
                        out = perform(c, node, lambda tr: tr.wrap(rng, w))
                        self.after_edit("wrap", case, out, True)
                    elif not model.types[t].is_leaf:
                        out = perform(c, node, lambda tr: tr.wrap(rng, [NTA(tt, attrs)]))
                        self.after_edit("wrap", case, out, False)


def run_unit(u):
    res = engine.UnitResult(PROPERTY_ID)
    engine.arm()
    if u["kind"] == "zoo":
        c, sc, docs = common.unit_docs(u)
        pool = common.pool_slices(u["sid"], u["donor"][0], u["donor"][1])
        pools = ops.default_pools(c, sc, pool, u.get("max_slices"), offset=u.get("offset", 0))
        for d in docs:
            res.states += 1
            try:
                Checker(c, d, res, True).run(pools)
            except engine.Watchdog:
                res.violate("c12.hang", {"schema": c.id, "doc": d}, "watchdog")
        if docs:
            res.sample({"schema": c.id, "doc": docs[-1], "helpers": "all positions / ranges"})
        res.scopes.append({"unit": u["name"], "docs": len(docs), "slices": len(pools["slices"]), "completed": True})
    else:
        nd = 0
        for sid, (i, j, k, v) in u["ids"]:
            c = adapters.Ctx(sid, schemas.fgen_spec(i, j, k, v))
            sc = scopes.scope(c.model, "fgen", sid, u["size"])
            docs = gen_docs.gen_docs(c.model, sc)
            donor = gen_docs.gen_docs(c.model, scopes.scope(c.model, "fgen", sid, u["size"] - 2))
            sl = [{"content": [], "openStart": 0, "openEnd": 0}, *rsl.all_slices(c.model, donor)]
            pools = ops.default_pools(c, sc, sl, 12)
            for d in docs:
                res.states += 1
                nd += 1
                try:
                    Checker(c, d, res, False).run(pools)
                except engine.Watchdog:
                    res.violate("c12.hang", {"schema": c.id, "spec": c.spec, "doc": d}, "watchdog")
        if u["ids"]:
            res.sample({"schema": u["ids"][0][0], "family": "F-gen"})
        res.scopes.append({"unit": u["name"], "schemas": len(u["ids"]), "docs": nd, "completed": True})
    engine.disarm()
    res.evaluations = res.transitions
    return res


def replay(case):
    res = engine.UnitResult(PROPERTY_ID)
    if case.get("spec"):
        c = adapters.Ctx(case["schema"], case["spec"])
        sc = scopes.scope(c.model, "fgen", case["schema"], 6)
        donor = gen_docs.gen_docs(c.model, scopes.scope(c.model, "fgen", case["schema"], 4))
        sl = [{"content": [], "openStart": 0, "openEnd": 0}, *rsl.all_slices(c.model, donor)]
        pools = ops.default_pools(c, sc, sl, 12)
        strict = False
    else:
        c = adapters.ctx(case["schema"])
        fam = scopes.families_for(case["schema"])[0]
        sc = scopes.scope(c.model, fam, case["schema"], 6)
        sl = [case["slice"]] if case.get("slice") else common.pool_slices(case["schema"], fam, 4)[:20]
        pools = ops.default_pools(c, sc, sl, 20)
        if case.get("slice"):
            pools["slices"] = [case["slice"]]
        strict = True
    engine.arm()
    try:
        Checker(c, case["doc"], res, strict).run(pools)
    except engine.Watchdog:
        res.violate("c12.hang", case, "watchdog")
    engine.disarm()
    return res.violations
