"""C13 — adding and removing marks over a range has exactly the documented effect (explorer E1)."""

from __future__ import annotations

import copy
import json
import re

from .. import adapters, engine, ops
from ..ref import cexpr, validity
from ..ref import marks as rmk
from ..ref import positions as rp
from ..ref import tokens as tk
from ..universe import gen_docs, gen_steps, schemas, scopes
from . import common

PROPERTY_ID = "C13"
jkey = tk.jkey


def describe():
    return {
        "rule": "scope documents (zoo + F-marks exclusion configurations) x all ranges x all marks / mark types / None "
                "for add_mark and remove_mark; node-mark, attribute and doc-attribute edits at every position; "
                "set_block_type for every range x textblock type x attrs; set_node_markup for every position x type. "
                "Each result is compared token by token with a prediction from the reference mark algebra. "
                "non-trivial = edits that changed the document (counted)",
        "assumptions": [
            "bounded scopes incl. text that ranges split, code blocks, astral text with newlines, marks on block nodes",
            "reference prediction: per-token mark update; block retyping = longest match of the new content expression, "
            "forbidden marks removed, newline runs replaced by one space unless the new type is a code block",
        ],
        "explanation": "E1 exhaustive mark / markup edits against per-token predictions",
    }


def units(tier, seed):
    q = tier == "quick"
    specs = [
        {"sid": "basic", "family": "inline_s", "size": 5 if q else 6},
        {"sid": "basic", "family": "inline", "size": 4 if q else 5, "blocks": 16},
        {"sid": "basic", "family": "blocks2", "size": 6 if q else 7},
        {"sid": "list", "family": "astral", "size": 6 if q else 8},
        {"sid": "topmarks", "family": "topmarks", "size": 5 if q else 6},
        {"sid": "list", "family": "lists", "size": 12 if q else 14},
        {"sid": "basic", "family": "links", "size": 5 if q else 6},
    ]
    extra = [
        {"sid": "struct", "family": "struct", "size": 7},
        {"sid": "attrs", "family": "attrs", "size": 4},
        {"sid": "iso", "family": "iso", "size": 8},
        {"sid": "strict_hb", "family": "strict", "size": 10},
    ]
    if q:
        specs.append(extra[seed % len(extra)])
    else:
        specs.extend(extra)
    out = common.doc_units(PROPERTY_ID, specs, per_scope_blocks=8 if q else 16)
    for u in out:
        u["kind"] = "zoo"
    fam = schemas.mark_family_specs([("A", "B", "C"), ("C", "A", "B")])
    step = 32 if q else 6
    sel = fam[(seed % step)::step]
    nb = 48
    for b in range(nb):
        out.append({"kind": "fmarks", "ids": [x[0] for x in sel[b::nb]], "size": 4, "name": f"fmarks#{b}/{nb}"})
    sel2 = fam[(seed % (step * 2))::(step * 2)]
    for b in range(nb):
        out.append({"kind": "fmarks", "ids": [x[0] for x in sel2[b::nb]], "size": 5, "family": "fmarks_c",
                    "name": f"fmarks_c#{b}/{nb}"})
    return out


# ---------------------------------------------------------------------------
# reference predictions on the JSON tree


def map_inline(model, node, base, frm, to, fn, parent=None, containers="atom"):
    """Copy of the JSON tree where fn(marks, parent_type) -> marks is applied to every inline leaf / text part
    inside [frm, to); text nodes are split at the range borders and re-merged.  Inline nodes WITH content are
    affected themselves when their opening token lies in the range: always for removals (containers="all"), only
    if they are atoms for additions (containers="atom")."""
    t = model.types[node["type"]]
    if t.is_text or t.is_leaf:
        return node
    out = []
    pos = base
    for k in node.get("content") or []:
        kt = model.types[k["type"]]
        size = tk.node_size(model, k)
        if kt.is_text:
            us = tk.units(k["text"])
            a = max(frm, pos) - pos
            b = min(to, pos + size) - pos
            if a < b:
                pieces = [(us[:a], None), (us[a:b], fn), (us[b:], None)]
            else:
                pieces = [(us, None)]
            for piece, f in pieces:
                if not piece:
                    continue
                marks = k.get("marks") or []
                if f is not None:
                    marks = f(marks, node["type"])
                n = {"type": "text", "text": tk.from_units(piece)}
                if marks:
                    n["marks"] = marks
                out.append(n)
        elif kt.is_leaf:
            n = k
            if kt.is_inline and frm <= pos < to:
                marks = fn(k.get("marks") or [], node["type"])
                n = {x: y for x, y in k.items() if x != "marks"}
                if marks:
                    n["marks"] = marks
            out.append(n)
        else:
            inner = map_inline(model, k, pos + 1, frm, to, fn, node, containers)
            if kt.is_inline and frm <= pos < to and (containers == "all" or kt.atom):
                marks = fn(k.get("marks") or [], node["type"])
                inner = {x: y for x, y in inner.items() if x != "marks"}
                if marks:
                    inner["marks"] = marks
            out.append(inner)
        pos += size
    # merge adjacent text with equal marks
    merged = []
    for n in out:
        if merged and n["type"] == "text" and merged[-1]["type"] == "text" and \
                jkey(n.get("marks") or []) == jkey(merged[-1].get("marks") or []):
            m = dict(merged[-1])
            m["text"] = m["text"] + n["text"]
            merged[-1] = m
        else:
            merged.append(n)
    res = {x: y for x, y in node.items() if x != "content"}
    if merged:
        res["content"] = merged
    return res


def predict_add_mark(model, d, frm, to, mark):
    def fn(marks, parent):
        if not model.allows_mark(parent, mark["type"]):
            return marks
        return rmk.add(model, mark, marks)

    # the statement: EVERY inline node in the range whose parent allows the mark carries it
    return map_inline(model, d, 0, frm, to, fn, containers="all")


def predict_remove_mark(model, d, frm, to, mark=None, mark_type=None):
    def fn(marks, parent):
        if mark is not None:
            return rmk.remove(mark, marks)
        if mark_type is not None:
            return rmk.remove_type(mark_type, marks)
        return []

    return map_inline(model, d, 0, frm, to, fn, containers="all")


def replace_node_at(model, d, pos, fn):
    """Copy of d where the node starting exactly at `pos` (ref node_at) is replaced by fn(node); None if no node."""
    ref = rp.RefDoc(model, d)
    target = ref.node_at(ref.root, pos)
    if target is None:
        return None, None

    def rec(rn):
        if rn is target:
            return fn(rn.j)
        if not rn.kids:
            return rn.j
        kids = [rec(k) for k in rn.kids]
        out = {x: y for x, y in rn.j.items() if x != "content"}
        out["content"] = kids
        return out

    return rec(ref.root), target


NEWLINE = re.compile(r"\r?\n|\r")


def predict_set_block_type(model, d, frm, to, tname, attrs):
    """Reference for Transform.set_block_type."""
    ref = rp.RefDoc(model, d)
    new_t = model.types[tname]
    full = model.full_attrs(tname, attrs)
    hits = [k for k, pos, par, idx in ref.visit(ref.root, frm, to) if k.tm.is_textblock]
    # nodes_between does not descend into a textblock's inline children for this purpose; textblocks never nest

    def same_markup(rn):
        return rn.type == tname and jkey(rn.j.get("attrs") or {}) == jkey(full)

    def can_change(rn):
        par = rn.parent
        types = [k.type for k in par.kids]
        types[rn.index] = tname
        return cexpr.matches(par.tm.regex, types)

    todo = {id(k) for k in hits if not same_markup(k) and can_change(k)}

    def convert(rn):
        kids = []
        state = new_t.regex
        for k in rn.kids:
            nxt = cexpr.deriv(state, k.type)
            if nxt == cexpr.EMPTY:
                continue
            state = nxt
            kj = dict(k.j)
            marks = [m for m in k.marks if model.allows_mark(tname, m["type"])]
            if k.is_text and not new_t.code:
                kj["text"] = NEWLINE.sub(" ", k.text)
            kj.pop("marks", None)
            if marks:
                kj["marks"] = marks
            kids.append(kj)
        if not cexpr.nullable(state):
            return None  # filler needed: not predicted (none of the scopes needs it)
        # merge text
        merged = []
        for n in kids:
            if merged and n["type"] == "text" and merged[-1]["type"] == "text" and \
                    jkey(n.get("marks") or []) == jkey(merged[-1].get("marks") or []):
                m = dict(merged[-1])
                m["text"] = m["text"] + n["text"]
                merged[-1] = m
            else:
                merged.append(n)
        out = {"type": tname}
        if full:
            out["attrs"] = full
        if merged:
            out["content"] = merged
        if rn.marks:
            out["marks"] = rn.marks
        return out

    unpredictable = []

    def rec(rn):
        if id(rn) in todo:
            x = convert(rn)
            if x is None:
                unpredictable.append(rn)
                return rn.j
            return x
        if not rn.kids:
            return rn.j
        out = {x: y for x, y in rn.j.items() if x != "content"}
        out["content"] = [rec(k) for k in rn.kids]
        return out

    res = rec(ref.root)
    return None if unpredictable else res


# ---------------------------------------------------------------------------


def run_and_compare(c, d, node, op, want, res, clause, size, want_reject_ok=True, prep=None):
    """Run op; the result must equal `want` (JSON) when it returns; ValueError-family rejection is tolerated
    only when want_reject_ok."""
    res.transitions += 1
    case = {"schema": c.id, "spec": c.spec if c.id.startswith("fm") else None, "doc": d, "op": op}
    try:
        status, tr, exc = ops.run_op(c, node, op, prep=prep)
    except engine.Watchdog:
        res.violate(clause + ".hang", case, "watchdog", size=size)
        return
    res.outcome(op["op"] + ":" + status)
    if status == "internal":
        res.violate(clause + ".internal-error", case, common.exc_str(exc),
                    fingerprint=clause + ".internal-error:" + common.exc_fp(exc), size=size)
        return
    if status == "rejected":
        if not want_reject_ok:
            res.violate(clause + ".rejected", case, common.exc_str(exc), jkey(want)[:300], size=size)
        return
    if status == "n/a":
        return
    got = tr.doc.to_json()
    res.validated += 1
    if status == "ok":
        res.nontrivial += 1
    if want is not None and jkey(got) != jkey(want):
        res.violate(clause, case, jkey(got)[:400], jkey(want)[:400], size=size)
        return
    prob = validity.node_problem(c.model, got)
    if prob:
        res.violate(clause + ".invalid-result", case, prob, size=size)


def check_doc(c, sc, d, res, marks):
    model = c.model
    node = c.node(d)
    T = tk.doc_tokens(model, d)
    n = len(T)
    res.states += 1
    from ..ref import slices as rsl

    for a in range(n + 1):
        for b in range(a, n + 1):
            engine.kick(10)
            if rsl.is_midpair(T, a) or rsl.is_midpair(T, b):
                res.clause("c13.midpair-range-skipped")
                continue
            for m in marks:
                run_and_compare(c, d, node, {"op": "add_mark", "from": a, "to": b, "mark": m},
                                predict_add_mark(model, d, a, b, m), res, "c13.add_mark", n, False)
                run_and_compare(c, d, node, {"op": "remove_mark", "from": a, "to": b, "mark": m},
                                predict_remove_mark(model, d, a, b, mark=m), res, "c13.remove_mark", n, False)
                # the primitive steps over the same (possibly multi-block) range have the same documented effect
                if a < b:
                    run_and_compare(c, d, node, {"op": "add_mark_step", "from": a, "to": b, "mark": m},
                                    predict_add_mark(model, d, a, b, m), res, "c13.add_mark", n, False)
                    run_and_compare(c, d, node, {"op": "remove_mark_step", "from": a, "to": b, "mark": m},
                                    predict_remove_mark(model, d, a, b, mark=m), res, "c13.remove_mark", n, False)
            for mt in model.mark_names[:4]:
                run_and_compare(c, d, node, {"op": "remove_mark", "from": a, "to": b, "mark_type": mt},
                                predict_remove_mark(model, d, a, b, mark_type=mt), res, "c13.remove_mark.type", n, False)
            run_and_compare(c, d, node, {"op": "remove_mark", "from": a, "to": b},
                            predict_remove_mark(model, d, a, b), res, "c13.remove_mark.all", n, False)
            # range_has_mark agrees with the result
    # node-level edits
    for p in range(n + 1):
        engine.kick(10)
        for m in marks[:3]:
            want, target = replace_node_at(model, d, p, lambda j: _with_marks(j, rmk.add(model, m, j.get("marks") or [])))
            run_and_compare(c, d, node, {"op": "add_node_mark", "pos": p, "mark": m}, want, res, "c13.add_node_mark", n)
            want, target = replace_node_at(model, d, p, lambda j: _with_marks(j, rmk.remove(m, j.get("marks") or [])))
            run_and_compare(c, d, node, {"op": "remove_node_mark", "pos": p, "mark": m}, want, res,
                            "c13.remove_node_mark", n)
        for mt in model.mark_names[:2]:
            def rm_first(j, mt=mt):
                ms = j.get("marks") or []
                first = next((x for x in ms if x["type"] == mt), None)
                return _with_marks(j, rmk.remove(first, ms) if first else ms)

            want, target = replace_node_at(model, d, p, rm_first)
            run_and_compare(c, d, node, {"op": "remove_node_mark", "pos": p, "mark_type": mt}, want, res,
                            "c13.remove_node_mark.type", n)
        # attributes
        ref = rp.RefDoc(model, d)
        tgt = ref.node_at(ref.root, p)
        if tgt is not None and not tgt.is_text:
            for aname in [*tgt.tm.attrs, "nosuchattr"][:3]:
                for v in (7, "s"):
                    def set_attr(j, aname=aname, v=v):
                        if aname not in model.types[j["type"]].attrs:
                            return j
                        x = dict(j)
                        x["attrs"] = {**(j.get("attrs") or {}), aname: v}
                        return x

                    want, _t = replace_node_at(model, d, p, set_attr)
                    run_and_compare(c, d, node, {"op": "set_node_attribute", "pos": p, "attr": aname, "value": v},
                                    want, res, "c13.set_node_attribute", n)
        # set_node_markup
        if tgt is not None and not tgt.is_text:
            for tname, at in _markup_targets(model, sc):
                nt = model.types[tname]
                try:
                    full = model.full_attrs(tname, at)
                except ValueError:
                    continue

                def retag(j, tname=tname, full=full):
                    x = {"type": tname}
                    if full:
                        x["attrs"] = full
                    if j.get("content"):
                        x["content"] = j["content"]
                    if j.get("marks"):
                        x["marks"] = j["marks"]
                    return x

                want, _t = replace_node_at(model, d, p, retag)
                if tgt.is_leaf != nt.is_leaf:
                    continue  # retagging a leaf as a container (or back) builds an invalid node: outside the domain
                elif tgt.is_leaf and want is not None and validity.node_problem(model, want):
                    want = None  # the fitter may pick another placement
                run_and_compare(c, d, node, {"op": "set_node_markup", "pos": p, "type": tname, "attrs": at}, want, res,
                                "c13.set_node_markup", n)
            for ms in ([marks[0]] if marks else []):
                want, _t = replace_node_at(model, d, p, lambda j: _with_marks(j, [ms]))
                if tgt.is_leaf:
                    want = None  # leaves are re-inserted through the fitter, which drops marks the parent forbids
                run_and_compare(c, d, node, {"op": "set_node_markup", "pos": p, "type": None, "attrs": tgt.j.get("attrs"),
                                             "marks": [ms]}, want, res, "c13.set_node_markup.marks", n)
    for aname in model.types[model.top].attrs:
        want = dict(d)
        want["attrs"] = {**(d.get("attrs") or {}), aname: 5}
        run_and_compare(c, d, node, {"op": "set_doc_attribute", "attr": aname, "value": 5}, want, res,
                        "c13.set_doc_attribute", n, False)
    # set_block_type
    tbs = []
    for t in sc["types"]:
        if model.types[t].is_textblock:
            for at in (sc.get("attrs", {}).get(t) or [None])[:2]:
                tbs.append((t, at))
    first = (d.get("content") or [None])[0]
    shift = tk.node_size(model, first) if first is not None else 0
    d2 = {**d, "content": [first, *d["content"]]} if first is not None else None
    if first is not None and validity.node_problem(model, d2):
        first = None  # the top node cannot hold a second copy of its first child
    for a in range(n + 1):
        for b in range(a, n + 1):
            engine.kick(10)
            for tname, at in tbs:
                want = predict_set_block_type(model, d, a, b, tname, at)
                run_and_compare(c, d, node, {"op": "set_block_type", "from": a, "to": b, "type": tname, "attrs": at},
                                want, res, "c13.set_block_type", n, False)
                # ... and as the SECOND operation of a Transform whose first step inserted a copy of the first block
                # at the start (all positions shifted): same effect on the shifted range, the inserted block untouched
                if first is not None:
                    want2 = predict_set_block_type(model, d2, a + shift, b + shift, tname, at)
                    run_and_compare(c, d, node, {"op": "set_block_type", "from": a + shift, "to": b + shift, "type": tname,
                                                 "attrs": at, "after": "insert(0, first block)"},
                                    want2, res, "c13.set_block_type", n, False,
                                    prep=lambda tr: tr.insert(0, node.child(0)))


def _markup_targets(model, sc):
    out = []
    for t in sc["types"]:
        if t in (model.top, "text"):
            continue
        variants = sc.get("attrs", {}).get(t) or [None]
        out.append((t, variants[-1]))
    return out[:6]


def _with_marks(j, marks):
    x = {k: v for k, v in j.items() if k != "marks"}
    if marks:
        x["marks"] = marks
    return x


def family_marks():
    return [{"type": "A", "attrs": {"id": 0}}, {"type": "A", "attrs": {"id": 1}}, {"type": "B", "attrs": {}},
            {"type": "C", "attrs": {}}]


def run_unit(u):
    res = engine.UnitResult(PROPERTY_ID)
    engine.arm()
    if u["kind"] == "zoo":
        c, sc, docs = common.unit_docs(u)
        marks = gen_steps.schema_marks(c.model, 5)
        for d in docs:
            try:
                check_doc(c, sc, d, res, marks)
            except engine.Watchdog:
                res.violate("c13.hang", {"schema": c.id, "doc": d}, "watchdog")
        if docs:
            res.sample({"schema": c.id, "doc": docs[-1], "op": {"op": "add_mark", "from": 1, "to": 3, "mark": marks[0] if marks else None}})
        res.scopes.append({"unit": u["name"], "docs": len(docs), "marks": len(marks), "completed": True})
    else:
        fam = dict(schemas.mark_family_specs([("A", "B", "C"), ("C", "A", "B")]))
        nd = 0
        for sid in u["ids"]:
            c = adapters.Ctx(sid, fam[sid])
            sc = scopes.scope(c.model, u.get("family", "fmarks"), sid, u["size"])
            docs = gen_docs.gen_docs(c.model, sc)
            for d in docs:
                nd += 1
                try:
                    check_doc(c, sc, d, res, family_marks())
                except engine.Watchdog:
                    res.violate("c13.hang", {"schema": c.id, "spec": c.spec, "doc": d}, "watchdog")
        if u["ids"]:
            res.sample({"schema": u["ids"][0], "family": "F-marks", "marks": family_marks()})
        res.scopes.append({"unit": u["name"], "configurations": len(u["ids"]), "docs": nd, "completed": True})
    engine.disarm()
    res.evaluations = res.transitions
    return res


def replay(case):
    res = engine.UnitResult(PROPERTY_ID)
    if case.get("spec"):
        c = adapters.Ctx(case["schema"], case["spec"])
        nested = '"type":"chip"' in jkey(case["doc"]) or '"type":"span"' in jkey(case["doc"])
        sc = scopes.scope(c.model, "fmarks_c" if nested else "fmarks", case["schema"], 5 if nested else 4)
        marks = family_marks()
    else:
        c = adapters.ctx(case["schema"])
        sc = scopes.scope(c.model, scopes.families_for(case["schema"])[0], case["schema"], 6)
        marks = gen_steps.schema_marks(c.model, 5)
    engine.arm()
    try:
        check_doc(c, sc, case["doc"], res, marks)
    except engine.Watchdog:
        res.violate("c13.hang", case, "watchdog")
    engine.disarm()
    _ = (copy, json)
    return res.violations
