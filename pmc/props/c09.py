"""C09 — positions resolve, index and traverse consistently, counting UTF-16 units (explorer E1)."""

from __future__ import annotations

from .. import adapters, engine
from ..ref import marks as rmk
from ..ref import positions as rp
from ..ref import slices as rsl
from ..ref import tokens as tk
from . import common

PROPERTY_ID = "C09"
jkey = tk.jkey


def describe():
    return {
        "rule": "every document of the scopes x every position 0..size (and -1, size+1) x every accessor; every ordered "
                "position pair for the two-position interfaces; every node x every offset for node-level lookups. "
                "non-trivial = distinct (document, position) pairs with depth >= 1 or inside text (counted)",
        "assumptions": [
            "documents bounded as listed under scopes; text alphabet a, bc, two astral characters, newline",
            "reference ref/positions.py annotates the JSON tree with absolute positions by counting",
            "positions that split a surrogate pair may raise a ValueError where text would have to be cut",
        ],
        "explanation": "E1 exhaustive comparison of ResolvedPos / Node traversal accessors with a counting reference",
    }


def units(tier, seed):
    q = tier == "quick"
    specs = [
        {"sid": "basic", "family": "blocks", "size": 7 if q else 8},
        {"sid": "basic", "family": "blocks2", "size": 7 if q else 8},
        {"sid": "basic", "family": "inline", "size": 5 if q else 6, "blocks": 16 if q else 64},
        {"sid": "basic", "family": "inline_s", "size": 6 if q else 7},
        {"sid": "list", "family": "lists", "size": 14 if q else 18},
        {"sid": "list", "family": "astral", "size": 7 if q else 9},
        {"sid": "struct", "family": "struct", "size": 8 if q else 9},
        {"sid": "topmarks", "family": "topmarks", "size": 6 if q else 7},
        {"sid": "basic", "family": "links", "size": 5 if q else 6},
        {"sid": "attrs", "family": "attrs", "size": 4 if q else 5, "blocks": 16},
        # inline nodes with content; one of them is an atom (which is not the same as a leaf)
        {"sid": "chips", "family": "chips", "size": 5 if q else 6},
    ]
    extra = [
        {"sid": "list", "family": "lists_q", "size": 10 if q else 14},
        {"sid": "table", "family": "table", "size": 12 if q else 18},
        {"sid": "iso", "family": "iso", "size": 8 if q else 10},
    ]
    if q:
        specs.append(extra[seed % len(extra)])
    else:
        specs.extend(extra)
    return common.doc_units(PROPERTY_ID, specs, per_scope_blocks=8 if q else 16)


def pair_nodes(rnode, lnode, out):
    out.append((rnode, lnode))
    for i, k in enumerate(rnode.kids):
        pair_nodes(k, lnode.child(i), out)


def nj(n):
    return None if n is None else jkey(n.to_json())


def check_doc(c, d, res, node=None, derive=True):
    """node: a LIVE node to examine (default: built from the JSON d).  derive: afterwards also examine documents
    derived from this very object by a few edits - they share sub-trees (and any per-object caches) with it."""
    model = c.model
    if node is None:
        node = c.node(d)
    else:
        d = node.to_json()
    ref = rp.RefDoc(model, d)
    T = tk.doc_tokens(model, d)
    size = ref.size
    base = {"schema": c.id, "doc": d}
    res.states += 1

    def bad(clause, extra, got, want):
        res.violate(clause, {**base, **extra}, got, want, size=size)

    def call(clause, extra, fn, want, allow_value_error=False):
        """Compare fn() with want; exceptions are violations (unless a ValueError is allowed)."""
        res.transitions += 1
        try:
            got = fn()
        except ValueError as e:
            if allow_value_error:
                res.clause("c09.midpair-valueerror")
                return None
            bad(clause + ".raises", extra, common.exc_str(e), want)
            return None
        except Exception as e:  # noqa: BLE001
            res.violate(clause + ".raises", {**base, **extra}, common.exc_str(e), want,
                        fingerprint=clause + ".raises:" + common.exc_fp(e), size=size)
            return None
        res.validated += 1
        if got != want:
            bad(clause, extra, got, want)
        return got

    if node.content.size != size or node.node_size != size + 2:
        bad("c09.node_size", {}, [node.content.size, node.node_size], size)

    # out-of-range positions
    for p in (-1, size + 1):
        try:
            node.resolve(p)
            bad("c09.resolve.out-of-range", {"pos": p}, "returned", "ValueError")
        except ValueError:
            pass
        except Exception as e:  # noqa: BLE001
            bad("c09.resolve.out-of-range", {"pos": p}, common.exc_str(e), "ValueError")

    resolved = []
    for p in range(size + 1):
        ex = {"pos": p}
        mid = rsl.is_midpair(T, p)
        try:
            r = ref.resolve(p)
            L = node.resolve(p)
        except Exception as e:  # noqa: BLE001
            bad("c09.resolve.raises", ex, common.exc_str(e), None)
            resolved.append(None)
            continue
        resolved.append((r, L))
        dp = r["depth"]
        if dp >= 1 or r["text_offset"]:
            res.nontrivial += 1
        call("c09.depth", ex, lambda: L.depth, dp)
        call("c09.pos", ex, lambda: L.pos, p)
        call("c09.parent_offset", ex, lambda: L.parent_offset, ref.parent_offset(r))
        call("c09.text_offset", ex, lambda: L.text_offset, r["text_offset"])
        call("c09.parent", ex, lambda: nj(L.parent), jkey(r["nodes"][-1].j))
        call("c09.doc", ex, lambda: nj(L.doc), jkey(d))
        for dd in range(dp + 1):
            e2 = {"pos": p, "depth": dd}
            call("c09.node", e2, lambda: nj(L.node(dd)), jkey(r["nodes"][dd].j))
            call("c09.index", e2, lambda: L.index(dd), r["index"][dd])
            call("c09.index_after", e2, lambda: L.index_after(dd), ref.index_after(r, dd))
            call("c09.start", e2, lambda: L.start(dd), ref.start(r, dd))
            call("c09.end", e2, lambda: L.end(dd), ref.end(r, dd))
            nkids = len(r["nodes"][dd].kids)
            for i in range(nkids + 1):
                call("c09.pos_at_index", {**e2, "i": i}, lambda: L.pos_at_index(i, dd), ref.pos_at_index(r, i, dd))
            if dd >= 1:
                call("c09.before", e2, lambda: L.before(dd), ref.before(r, dd))
                call("c09.after", e2, lambda: L.after(dd), ref.after(r, dd))
        # defaults and negative depths
        call("c09.index.default", ex, lambda: L.index(), r["index"][dp])
        call("c09.start.default", ex, lambda: L.start(), ref.start(r, dp))
        call("c09.end.default", ex, lambda: L.end(), ref.end(r, dp))
        if dp >= 1:
            call("c09.node.negative", ex, lambda: nj(L.node(-1)), jkey(r["nodes"][dp - 1].j))
            call("c09.before.default", ex, lambda: L.before(), ref.before(r, dp))
            call("c09.after.default", ex, lambda: L.after(), ref.after(r, dp))
        call("c09.before.depth+1", ex, lambda: L.before(dp + 1), p)
        call("c09.after.depth+1", ex, lambda: L.after(dp + 1), p)
        for nm, fn in (("before", L.before), ("after", L.after)):
            try:
                fn(0)
                bad(f"c09.{nm}.depth0", ex, "returned", "ValueError")
            except ValueError:
                pass
            except Exception as e:  # noqa: BLE001
                bad(f"c09.{nm}.depth0", ex, common.exc_str(e), "ValueError")
        call("c09.node_after", ex, lambda: nj(L.node_after),
             None if mid else _jk(ref.node_after(r)), allow_value_error=mid) if not mid else _try_mid(L, "node_after", res)
        call("c09.node_before", ex, lambda: nj(L.node_before),
             None if mid else _jk(ref.node_before(r)), allow_value_error=mid) if not mid else _try_mid(L, "node_before", res)
        call("c09.marks", ex, lambda: jkey(adapters.marks_json(L.marks())), jkey(ref.marks(r)))
        # Node.node_at / child_after / child_before on the document
        call("c09.node_at", ex, lambda: nj(node.node_at(p)), _jk(_rj(ref.node_at(ref.root, p))))
        ca = ref.child_after(ref.root, p)
        call("c09.child_after", ex, lambda: _ci(node.child_after(p)), (_jk(_rj(ca[0])), ca[1], ca[2]))
        cb = ref.child_before(ref.root, p)
        call("c09.child_before", ex, lambda: _ci(node.child_before(p)), (_jk(_rj(cb[0])), cb[1], cb[2]))

    # pairs
    mark_queries = _mark_queries(c)
    for p in range(size + 1):
        if resolved[p] is None:
            continue
        r, L = resolved[p]
        for q in range(size + 1):
            if resolved[q] is None:
                continue
            r2, L2 = resolved[q]
            ex = {"pos": p, "other": q}
            call("c09.shared_depth", ex, lambda: L.shared_depth(q), ref.shared_depth(r, q))
            call("c09.same_parent", ex, lambda: L.same_parent(L2), ref.start(r, r["depth"]) == ref.start(r2, r2["depth"]))
            call("c09.min", ex, lambda: L.min(L2).pos, min(p, q))
            call("c09.max", ex, lambda: L.max(L2).pos, max(p, q))
            call("c09.marks_across", ex,
                 lambda: (None if (m := L.marks_across(L2)) is None else jkey(adapters.marks_json(m))),
                 (None if (m2 := ref.marks_across(r, r2)) is None else jkey(m2)))
            lo, hi = (r, r2) if p <= q else (r2, r)
            br = ref.block_range(lo, hi)

            def do_br():
                x = L.block_range(L2)
                if x is None:
                    return None
                return (x.depth, x.start, x.end, x.start_index, x.end_index, nj(x.parent))

            call("c09.block_range", ex, do_br, None if br is None else (*br[:5], jkey(br[5].j)))
            if p == q:
                # the same position as a DISTINCT object (resolved without the cache): equality is by position
                Lf = adapters.pm_model.ResolvedPos.resolve(node, p)

                def do_br_f():
                    x = L.block_range(Lf)
                    if x is None:
                        return None
                    return (x.depth, x.start, x.end, x.start_index, x.end_index, nj(x.parent))

                call("c09.block_range.equal-object", ex, do_br_f, None if br is None else (*br[:5], jkey(br[5].j)))
                call("c09.same_parent.equal-object", ex, lambda: L.same_parent(Lf), True)
                call("c09.min.equal-object", ex, lambda: (L.min(Lf).pos, L.max(Lf).pos), (p, p))
                br1 = ref.block_range(r, r)
                call("c09.block_range.single", ex,
                     lambda: (None if (x := L.block_range()) is None else (x.depth, x.start, x.end)),
                     None if br1 is None else br1[:3])
            if p <= q:
                check_range(c, node, ref, T, p, q, ex, call, mark_queries, res)

    # node-level lookups on every node of the document
    pairs = []
    pair_nodes(ref.root, node, pairs)
    for rn, ln in pairs:
        if rn.is_text:
            call("c09.text.node_size", {"node": rn.j}, lambda: ln.node_size, rn.size)
            call("c09.text_content", {"node": rn.j}, lambda: ln.text_content, rn.text)
            continue
        call("c09.node_size", {"node_at": rn.pos}, lambda: ln.node_size, 1 if rn.is_leaf else rn.size)
        call("c09.child_count", {"node_at": rn.pos}, lambda: ln.child_count, len(rn.kids))
        n = len(rn.kids)
        for i in range(-2, n + 2):
            want = jkey(rn.kids[i].j) if 0 <= i < n else None
            call("c09.maybe_child", {"node_at": rn.pos, "i": i}, lambda: nj(ln.maybe_child(i)), want)
            call("c09.fragment.maybe_child", {"node_at": rn.pos, "i": i}, lambda: nj(ln.content.maybe_child(i)), want)
            if 0 <= i < n:
                call("c09.child", {"node_at": rn.pos, "i": i}, lambda: nj(ln.child(i)), want)
            elif i >= n:
                try:
                    ln.child(i)
                    bad("c09.child.out-of-range", {"node_at": rn.pos, "i": i}, "returned", "an error")
                except Exception:  # noqa: BLE001
                    pass
        call("c09.first_child", {"node_at": rn.pos}, lambda: nj(ln.first_child), jkey(rn.kids[0].j) if n else None)
        call("c09.last_child", {"node_at": rn.pos}, lambda: nj(ln.last_child), jkey(rn.kids[-1].j) if n else None)
        if rn.is_leaf:
            continue
        cs = rn.content_size
        try:
            want_text = rp.join_parts(ref.text_between(rn, 0, cs))
        except UnicodeError:
            want_text = None
        if want_text is not None:
            call("c09.text_content", {"node_at": rn.pos}, lambda: ln.text_content, want_text)
        if rn is ref.root:
            continue
        # results are plain records: they must stay valid while further lookups are made
        held = [(off, rnd, ln.content.find_index(off, rnd)) for off in range(cs + 1) for rnd in (-1, 1)]
        held_ca = [(off, ln.child_after(off), ln.child_before(off)) for off in range(cs + 1)]
        for off, rnd, rec in held:
            fi = ref.find_index(rn, off, rnd)
            if (rec["index"], rec["offset"]) != fi:
                bad("c09.find_index.held-result", {"node_at": rn.pos, "offset": off, "round": rnd},
                    [rec["index"], rec["offset"]], list(fi))
                break
        for off, ca_l, cb_l in held_ca:
            ca = ref.child_after(rn, off)
            cb = ref.child_before(rn, off)
            if _ci(ca_l) != (_jk(_rj(ca[0])), ca[1], ca[2]) or _ci(cb_l) != (_jk(_rj(cb[0])), cb[1], cb[2]):
                bad("c09.child_after.held-result", {"node_at": rn.pos, "offset": off}, [_ci(ca_l), _ci(cb_l)], None)
                break
        for off in range(cs + 1):
            ex = {"node_at": rn.pos, "offset": off}
            for rnd in (-1, 1):
                fi = ref.find_index(rn, off, rnd)
                call("c09.find_index", {**ex, "round": rnd},
                     lambda: (lambda x: (x["index"], x["offset"]))(ln.content.find_index(off, rnd)), fi)
            call("c09.node.node_at", ex, lambda: nj(ln.node_at(off)), _jk(_rj(ref.node_at(rn, off))))
            ca = ref.child_after(rn, off)
            call("c09.node.child_after", ex, lambda: _ci(ln.child_after(off)), (_jk(_rj(ca[0])), ca[1], ca[2]))
            cb = ref.child_before(rn, off)
            call("c09.node.child_before", ex, lambda: _ci(ln.child_before(off)), (_jk(_rj(cb[0])), cb[1], cb[2]))
        for bad_off in (-1, cs + 1):
            try:
                ln.content.find_index(bad_off)
                bad("c09.find_index.out-of-range", {"node_at": rn.pos, "offset": bad_off}, "returned", "ValueError")
            except ValueError:
                pass
            except Exception as e:  # noqa: BLE001
                bad("c09.find_index.out-of-range", {"node_at": rn.pos, "offset": bad_off}, common.exc_str(e), "ValueError")
    if derive and size <= 4:
        seen = set()
        for dn in derived_docs(c, node, size):
            k = jkey(dn.to_json())
            if k in seen:
                continue
            seen.add(k)
            before = len(res.violations)
            check_doc(c, None, res, node=dn, derive=False)
            if len(res.violations) > before:
                v = res.violations[-1]
                v.case = {"derived_from": d, **(v.case if isinstance(v.case, dict) else {})}


def derived_docs(c, node, size):
    """Live documents derived from `node` (after it has been queried): single-token deletes, a text insertion at
    every position, Node.cut - through the real API, keeping object identity of the untouched sub-trees."""
    out = []
    tr_cls = adapters.Transform
    for p in range(size):
        for fn in (lambda tr, p=p: tr.delete(p, p + 1), lambda tr, p=p: tr.insert(p, c.schema.text("z"))):
            tr = tr_cls(node)
            try:
                fn(tr)
            except Exception:  # noqa: BLE001
                continue
            if tr.steps:
                out.append(tr.doc)
    # documents that share the very same content Fragment object: another top node around it, a changed document
    # attribute (positions resolved in one must not be answered from what was resolved in the other)
    try:
        out.append(node.type.create({a: 7 for a in node.attrs} or None, node.content, node.marks))
        for a in node.attrs:
            tr = tr_cls(node)
            tr.set_doc_attribute(a, "changed")
            out.append(tr.doc)
    except Exception:  # noqa: BLE001
        pass
    for p in range(1, size):
        try:
            out.append(node.cut(p))
            out.append(node.cut(0, p))
        except Exception:  # noqa: BLE001
            pass
    return out


def _try_mid(L, name, res):
    try:
        getattr(L, name)
        res.clause("c09.midpair-returned")
    except ValueError:
        res.clause("c09.midpair-valueerror")


def _rj(rn):
    return None if rn is None else rn.j


def _jk(j):
    return None if j is None else jkey(j)


def _ci(info):
    return (nj(info["node"]), info["index"], info["offset"])


_QM: dict = {}


def _query_marks(c):
    if c.id not in _QM:
        from ..universe import gen_steps

        _QM[c.id] = gen_steps.schema_marks(c.model, 4)
    return _QM[c.id]


def _mark_queries(c):
    out = []
    for name in c.model.mark_names[:3]:
        out.append(("type", name))
    return out


def check_range(c, node, ref, T, p, q, ex, call, mark_queries, res):
    """Two-position interfaces for p <= q."""
    model = c.model

    def visit_live(stop_types=None, use_descendants=False):
        got = []

        def f(n, pos, parent, index):
            got.append((nj(n), pos, parent.type.name if parent is not None else None, index))
            if stop_types and n.type.name in stop_types:
                return False
            return None

        if use_descendants:
            node.descendants(f)
        else:
            node.nodes_between(p, q, f)
        return got

    want = [(jkey(k.j), pos, par.type, idx) for k, pos, par, idx in ref.visit(ref.root, p, q)]
    call("c09.nodes_between", ex, visit_live, want)
    # honour a False return: do not descend into some container types
    containers = [t for t in model.type_names if not model.types[t].is_leaf and t != model.top][:2]
    if containers:
        st = set(containers)
        want2 = [(jkey(k.j), pos, par.type, idx)
                 for k, pos, par, idx in ref.visit(ref.root, p, q, stop=lambda k: k.type in st)]
        call("c09.nodes_between.stop", ex, lambda: visit_live(st), want2)
    if p == 0 and q == ref.size:
        call("c09.descendants", ex, lambda: visit_live(None, True), want)
    # range_has_mark
    visited = ref.visit(ref.root, p, q)
    for kind, name in mark_queries:
        mt = c.schema.marks[name]
        want_m = q > p and any(any(m["type"] == name for m in k.marks) for k, *_ in visited)
        call("c09.range_has_mark", {**ex, "mark_type": name}, lambda: node.range_has_mark(p, q, mt), want_m)
    seen_marks = []
    for k, *_ in visited:
        for m in k.marks:
            if not rmk.in_set(m, seen_marks):
                seen_marks.append(m)
    for m in seen_marks[:2]:
        lm = c.mark(m)
        call("c09.range_has_mark.mark", {**ex, "mark": m}, lambda: node.range_has_mark(p, q, lm), q > p)
    # concrete marks (same type, other attribute values included): present exactly if an equal mark is in range
    for m in _query_marks(c):
        lm = c.mark(m)
        want_q = q > p and any(rmk.in_set(m, k.marks) for k, *_ in visited)
        call("c09.range_has_mark.mark", {**ex, "mark": m}, lambda: node.range_has_mark(p, q, lm), want_q)
    # text_between
    mid = rsl.is_midpair(T, p) or rsl.is_midpair(T, q)
    for sep, leaf in (("", ""), ("|", ""), ("\n", "*")):
        parts = ref.text_between(ref.root, p, q, sep, leaf)
        try:
            want_t = rp.join_parts(parts)
        except UnicodeError:
            want_t = None
        if want_t is None or mid:
            res.transitions += 1
            try:
                node.text_between(p, q, sep, leaf)
                res.clause("c09.midpair-returned")
            except ValueError:
                res.clause("c09.midpair-valueerror")
            except Exception as e:  # noqa: BLE001
                res.violate("c09.text_between.raises", {"schema": c.id, "doc": node.to_json(), **ex},
                            common.exc_str(e), size=ref.size)
            continue
        call("c09.text_between", {**ex, "sep": sep, "leaf": leaf}, lambda: node.text_between(p, q, sep, leaf), want_t)


def run_unit(u):
    res = engine.UnitResult(PROPERTY_ID)
    c, sc, docs = common.unit_docs(u)
    engine.arm()
    for d in docs:
        engine.kick(20)
        try:
            check_doc(c, d, res)
        except engine.Watchdog:
            res.violate("c09.hang", {"schema": c.id, "doc": d}, "watchdog")
    engine.disarm()
    if docs:
        res.sample({"schema": c.id, "doc": docs[-1], "positions": "0..size, all pairs"})
    res.scopes.append({"unit": u["name"], "docs": len(docs), "completed": True})
    res.evaluations = res.transitions
    return res


def replay(case):
    res = engine.UnitResult(PROPERTY_ID)
    c = adapters.ctx(case["schema"], case.get("spec"))
    check_doc(c, case.get("derived_from") or case["doc"], res)
    return res.violations
