"""C11 — replace-family edits always succeed, stay valid and keep surrounding content (explorer E1)."""

from __future__ import annotations

from .. import adapters, engine, ops
from ..ref import tokens as tk
from ..ref import validity
from ..universe import schemas, scopes, gen_docs
from ..ref import slices as rsl
from . import common

PROPERTY_ID = "C11"
jkey = tk.jkey
OPS = ("replace", "replace_range", "replace_with", "replace_range_with", "insert", "delete", "delete_range")
ZOO_TOTAL = ("basic", "list", "strict_hb", "title", "fixed", "struct", "iso", "table", "hp")


def describe():
    return {
        "rule": "scope documents x all ranges x all pool slices (any open depth, cut from other documents) and pool "
                "nodes x {replace, replace_with, insert, delete, replace_range, replace_range_with, delete_range} and "
                "replace_step; totality on the bundled schemas and their hand-written variants, validity + content "
                "preservation additionally on the enumerated F-gen schema family. non-trivial = operations that "
                "changed the document (counted)",
        "assumptions": [
            "bounded scopes; slices are cut (by the reference) from valid documents of the donor scope",
            "content = sequence of text units and leaf nodes; outside content compared with marks, inserted "
            "content as an in-order subsequence of the slice modulo marks",
        ],
        "explanation": "E1 exhaustive replace-family operations with validity / content-preservation oracles",
    }


def units(tier, seed):
    q = tier == "quick"
    specs = [
        {"sid": "list", "family": "lists", "size": 10 if q else 14, "donor": ("lists", 9 if q else 12), "max_slices": 50 if q else 300},
        {"sid": "basic", "family": "blocks", "size": 5 if q else 6, "donor": ("blocks", 4 if q else 5), "max_slices": 40 if q else 300},
        {"sid": "basic", "family": "inline_s", "size": 4 if q else 5, "donor": ("inline_s", 4), "max_slices": 40 if q else 300},
        {"sid": "list", "family": "lists_q", "size": 9 if q else 11, "donor": ("lists_q", 8 if q else 9), "max_slices": 30 if q else 300},
        {"sid": "iso", "family": "iso", "size": 7 if q else 9, "donor": ("iso", 7), "max_slices": 30 if q else 200},
        {"sid": "table", "family": "table", "size": 10 if q else 16, "donor": ("table", 12), "max_slices": 330, "blocks": 32},
        {"sid": "strict_hb", "family": "strict", "size": 9 if q else 11, "donor": ("strict", 9), "max_slices": 30 if q else 200},
        {"sid": "hp", "family": "hp", "size": 9 if q else 11, "donor": ("hp", 8), "max_slices": 30 if q else 200},
        # text with astral characters (two UTF-16 units each) before / after / around the range
        {"sid": "list", "family": "astral", "size": 5 if q else 6, "donor": ("astral", 4), "max_slices": 16 if q else 60},
    ]
    extra = [
        {"sid": "title", "family": "title", "size": 9 if q else 12, "donor": ("title", 9), "max_slices": 30 if q else 200},
        {"sid": "struct", "family": "struct", "size": 6 if q else 7, "donor": ("struct", 6), "max_slices": 30 if q else 200},
        {"sid": "fixed", "family": "fixed", "size": 10 if q else 14, "donor": ("fixed", 10), "max_slices": 30 if q else 200},
        {"sid": "iso", "family": "iso_list", "size": 9 if q else 11, "donor": ("iso_list", 8), "max_slices": 30 if q else 200},
        {"sid": "basic", "family": "blocks2", "size": 5 if q else 6, "donor": ("blocks2", 4), "max_slices": 30 if q else 200},
    ]
    for sp in specs + extra:
        sp["offset"] = seed
    if q:
        specs.append(extra[seed % len(extra)])
    else:
        specs.extend(extra)
    out = common.doc_units(PROPERTY_ID, specs, per_scope_blocks=8 if q else 16)
    for u in out:
        u["kind"] = "zoo"
    for sid, fam, size, donor in (("basic", "blocks", 2 if q else 3, ("blocks", 3)), ("list", "lists", 6 if q else 8, ("lists", 6)),
                                  ("iso", "iso", 4 if q else 5, ("iso", 4))):
        for uu in common.doc_units(PROPERTY_ID, [{"sid": sid, "family": fam, "size": size, "donor": donor, "offset": seed}],
                                   per_scope_blocks=8):
            uu["kind"] = "shared"
            uu["name"] += "/shared-objects"
            out.append(uu)
    ids = schemas.fgen_ids()
    step = 24 if q else 4
    sel = ids[(seed % step)::step]
    nb = 16 if q else 32
    for b in range(nb):
        out.append({"kind": "fgen", "ids": sel[b::nb], "size": 5 if q else 6, "name": f"fgen#{b}/{nb}"})
    return out


def subseq_mod_marks(small, big):
    """small (list of leaf tokens) is an in-order subsequence of big, ignoring marks."""
    def strip(t):
        return ("t", t[1]) if t[0] == "t" else ("l", t[1], t[2])

    it = iter([strip(x) for x in big])
    return all(any(x == y for y in it) for x in [strip(s) for s in small])


def split_mod_fillers(model, L1, pre, suf):
    """L1 = pre + mid + suf where generatable leaf nodes (the empty fillers a schema may require, e.g. the image of
    `figure: "caption figureimage"`) may additionally stand anywhere, also before / inside / behind pre and suf.
    Returns mid, or None when pre / suf are not kept in order and unmodified."""
    def filler(x):
        return x[0] == "l" and model.types[x[1]].generatable

    i = 0
    for x in pre:
        while i < len(L1) and L1[i] != x and filler(L1[i]):
            i += 1
        if i >= len(L1) or L1[i] != x:
            return None
        i += 1
    j = len(L1)
    for x in reversed(suf):
        while j > i and L1[j - 1] != x and filler(L1[j - 1]):
            j -= 1
        if j <= i or L1[j - 1] != x:
            return None
        j -= 1
    return L1[i:j]


def check_result(c, d, T, op, status, tr, exc, res, total):
    model = c.model
    size = len(T)
    case = {"schema": c.id, "spec": c.spec if c.id.startswith("fg") else None, "doc": d, "op": op}
    res.outcome(op["op"] + ":" + status)
    if status in ("rejected", "internal"):
        if total or status == "internal":
            if total:
                res.violate("c11.raises", case, common.exc_str(exc),
                            fingerprint="c11.raises:" + common.exc_fp(exc), size=size)
            else:
                res.clause("c11.fgen.internal-error(not claimed)")
        return
    if status == "n/a":
        return
    rj = tr.doc.to_json()
    res.validated += 1
    prob = validity.node_problem(model, rj)
    if prob:
        res.violate("c11.invalid-result", case, prob + " :: " + jkey(rj)[:300], size=size)
        return
    if status == "ok":
        res.nontrivial += 1
    if tr.doc.content.size != len(tk.doc_tokens(model, rj)):
        # the sizes the document reports must be those of its content (positions index into it)
        res.violate("c11.result-size-inconsistent", case, tr.doc.content.size, len(tk.doc_tokens(model, rj)), size=size)
        return
    frm = op.get("from", op.get("pos"))
    to = op.get("to", op.get("pos"))
    T1 = tk.doc_tokens(model, rj)
    L1 = tk.leaf_seq(T1)
    pre = tk.leaf_seq(T[:frm])
    suf = tk.leaf_seq(T[to:])
    if "slice" in op:
        ins = tk.leaf_seq(tk.content_tokens(model, op["slice"]["content"]))
    elif "nodes" in op:
        ins = tk.leaf_seq(tk.content_tokens(model, op["nodes"]))
    elif "node" in op:
        ins = tk.leaf_seq(tk.content_tokens(model, [op["node"]]))
    else:
        ins = []
    mid = split_mod_fillers(model, L1, pre, suf)
    if mid is None:
        res.violate("c11.outside-content-changed", case, jkey(rj)[:300], "prefix/suffix of leaf sequence kept",
                    fingerprint="c11.outside-content-changed:" + op["op"], size=size)
        return
    if op["op"] in ("delete", "delete_range"):
        mid = [x for x in mid if x[0] == "t" or not model.types[x[1]].generatable]
        if mid:
            res.violate("c11.delete-left-or-added-content", case, [list(x) for x in mid], [], size=size)
        return
    if status == "noop":
        # nothing was recorded (no fit found / nothing to do): the document is unchanged, the clauses about
        # inserted content are vacuous
        res.clause("c11.noop")
        return
    # generatable leaf nodes may be fillers the schema asks for; text and non-generatable leaves must come
    # from the slice
    mid = [x for x in mid if x[0] == "t" or not model.types[x[1]].generatable]
    ins = [x for x in ins if x[0] == "t" or not model.types[x[1]].generatable]
    if not subseq_mod_marks(mid, ins):
        res.violate("c11.inserted-not-subsequence", case, [list(x) for x in mid][:10], [list(x) for x in ins][:10],
                    fingerprint="c11.inserted-not-subsequence:" + op["op"], size=size)
        return
    # inserted content never gains marks the slice did not carry
    import json as _json

    slice_marks = set()
    for x in ins:
        for m in _json.loads(x[-1]):
            slice_marks.add(jkey(m))
    for x in mid:
        for m in _json.loads(x[-1]):
            if jkey(m) not in slice_marks:
                res.violate("c11.inserted-gained-mark", case, m, size=size)
                return


HISTORY_OPS = ("replace_range", "replace_range_with", "delete_range")


def neutral_first_step(c, tr):
    """A first step that changes no position and no content: a document attribute, if the schema has one."""
    top = c.model.types[c.model.top]
    if not top.attrs:
        raise ops.NotEnabled("no neutral first step")
    tr.set_doc_attribute(list(top.attrs)[0], "earlier")


def check_doc(c, sc, d, pools, res, total, node=None, groups=("replace", "lists"), with_replace_step=True):
    model = c.model
    if node is None:
        node = c.node(d)
    T = tk.doc_tokens(model, d)
    n = len(T)
    res.states += 1
    # positions between the two UTF-16 units of one astral character are not document positions in this port
    # (a Python string cannot be cut there): outside the domain
    mid = {i for i, t in enumerate(T) if t[0] == "t" and 0xDC00 <= t[1] <= 0xDFFF}
    for op in ops.enumerate_ops(model, n, pools, groups=groups):
        if mid and any(op.get(k) in mid for k in ("from", "to", "pos")):
            continue
        engine.kick(10)
        res.transitions += 1
        try:
            status, tr, exc = ops.run_op(c, node, op)
        except engine.Watchdog:
            res.violate("c11.hang", {"schema": c.id, "doc": d, "op": op}, "watchdog", size=n)
            continue
        check_result(c, d, T, op, status, tr, exc, res, total)
        if op["op"] in HISTORY_OPS and status in ("ok", "noop"):
            # the same operation as the SECOND operation of a Transform whose first step left the content alone (a
            # document-attribute step): it is judged by the same clauses, and "nothing was done" is only acceptable
            # as "no fit exists" - not when the very same edit is performed on a fresh Transform
            hcase = {"schema": c.id, "doc": d, "op": op, "after": "neutral first step"}
            try:
                st2, tr2, exc2 = ops.run_op(c, node, op, prep=lambda t: neutral_first_step(c, t))
            except engine.Watchdog:
                res.violate("c11.hang", hcase, "watchdog", size=n)
                continue
            if st2 == "n/a":
                continue
            res.transitions += 1
            check_result(c, d, T, {**op, "after": "neutral first step"}, st2, tr2, exc2, res, total)
            if status == "ok" and st2 == "noop":
                res.violate("c11.noop-although-fit-exists", hcase, "nothing was done",
                            jkey(tr.doc.content.to_json() or [])[:300], fingerprint="c11.noop-although-fit-exists:" + op["op"], size=n)
    if not with_replace_step:
        return
    # replace_step: returns a step that applies, or None
    for a in range(n + 1):
        for b in range(a, n + 1):
            if a in mid or b in mid:
                continue
            for sl in pools["slices"][:20]:
                engine.kick(10)
                res.transitions += 1
                case = {"schema": c.id, "doc": d, "op": {"op": "replace_step", "from": a, "to": b, "slice": sl}}
                try:
                    st = adapters.pm_transform.replace_step(node, a, b, c.slice(sl))
                    if st is not None:
                        r = st.apply(node)
                        if r.failed and total:
                            res.violate("c11.replace_step.does-not-apply", case, r.failed, size=n)
                except engine.Watchdog:
                    res.violate("c11.hang", case, "watchdog", size=n)
                except Exception as e:  # noqa: BLE001
                    if total:
                        res.violate("c11.raises", case, common.exc_str(e), fingerprint="c11.raises:" + common.exc_fp(e),
                                    size=n)


def shared_object_histories(c, sc, docs, pools, res):
    """Documents that contain the SAME live node object twice (inserted by two earlier operations at all pairs of
    positions), then every replace-family operation on them: sharing sub-trees by identity must not matter."""
    model = c.model
    nd = 0
    live_nodes = [(nj, c.node(nj)) for nj in pools["nodes"][:3]]
    small_pools = {**pools, "slices": pools["slices"][:6], "nodes": pools["nodes"][:3]}
    for d in docs:
        base = c.node(d)
        n0 = base.content.size
        for nj, ln in live_nodes:
            seen = set()
            for i in range(n0 + 1):
                tr = adapters.Transform(base)
                try:
                    tr.insert(i, ln)
                except ValueError:
                    continue
                if not tr.steps:
                    continue
                mid = tr.doc
                for j in range(mid.content.size + 1):
                    tr2 = adapters.Transform(mid)
                    try:
                        tr2.insert(j, ln)
                    except ValueError:
                        continue
                    if not tr2.steps:
                        continue
                    doc2 = tr2.doc
                    dj = doc2.to_json()
                    k = jkey(dj)
                    if k in seen or common.doc_size(model, dj) > 12:
                        continue
                    seen.add(k)
                    nd += 1
                    before = len(res.violations)
                    check_doc(c, sc, dj, small_pools, res, True, node=doc2, with_replace_step=False)
                    for v in res.violations[before:]:
                        if isinstance(v.case, dict):
                            v.case = {**v.case, "shared_history": {"start": d, "node": nj, "insert_at": [i, j]}}
    return nd


def run_unit(u):
    res = engine.UnitResult(PROPERTY_ID)
    engine.arm()
    if u["kind"] == "shared":
        c, sc, docs = common.unit_docs(u)
        pool = common.pool_slices(u["sid"], u["donor"][0], u["donor"][1])
        pools = ops.default_pools(c, sc, pool, 12, offset=u.get("offset", 0))
        nd = shared_object_histories(c, sc, docs, pools, res)
        if docs:
            res.sample({"schema": c.id, "shared_history": {"start": docs[-1], "node": pools["nodes"][0] if pools["nodes"] else None,
                                                          "insert_at": [0, 1]}})
        res.scopes.append({"unit": u["name"], "roots": len(docs), "documents_with_shared_objects": nd, "completed": True})
        engine.disarm()
        res.evaluations = res.transitions
        return res
    if u["kind"] == "zoo":
        c, sc, docs = common.unit_docs(u)
        # the donor scope uses UPPER-CASE text so that inserted content can be told from the document's own
        pool = common.pool_slices(u["sid"], u["donor"][0], u["donor"][1], texts=[t.upper() if t.upper() != t else t + "Z" for t in sc.get("texts", ["a"])])
        pools = ops.default_pools(c, sc, pool, u.get("max_slices"), offset=u.get("offset", 0))
        for d in docs:
            check_doc(c, sc, d, pools, res, u["sid"] in ZOO_TOTAL)
        if docs:
            res.sample({"schema": c.id, "doc": docs[-1], "op": {"op": "replace_range", "from": 1, "to": 3,
                                                                "slice": pools["slices"][min(5, len(pools["slices"]) - 1)]}})
        res.scopes.append({"unit": u["name"], "docs": len(docs), "slices": len(pools["slices"]),
                           "nodes": len(pools["nodes"]), "completed": True})
    else:
        nd = 0
        for sid, (i, j, k, v) in u["ids"]:
            c = adapters.Ctx(sid, schemas.fgen_spec(i, j, k, v))
            sc = scopes.scope(c.model, "fgen", sid, u["size"])
            docs = gen_docs.gen_docs(c.model, sc)
            donor = gen_docs.gen_docs(c.model, scopes.scope(c.model, "fgen", sid, u["size"] - 1))
            sl = [{"content": [], "openStart": 0, "openEnd": 0}, *rsl.all_slices(c.model, donor)]
            pools = ops.default_pools(c, sc, sl, 24)
            for d in docs:
                check_doc(c, sc, d, pools, res, False)
                nd += 1
        if u["ids"]:
            res.sample({"schema": u["ids"][0][0], "spec": schemas.fgen_spec(*u["ids"][0][1])})
        res.scopes.append({"unit": u["name"], "schemas": len(u["ids"]), "docs": nd, "completed": True})
    engine.disarm()
    res.evaluations = res.transitions
    return res


def replay(case):
    res = engine.UnitResult(PROPERTY_ID)
    c = adapters.Ctx(case["schema"], case["spec"]) if case.get("spec") else adapters.ctx(case["schema"])
    d = case["doc"]
    node = c.node(d)
    if case.get("shared_history"):
        h = case["shared_history"]
        ln = c.node(h["node"])
        tr = adapters.Transform(c.node(h["start"]))
        tr.insert(h["insert_at"][0], ln)
        tr.insert(h["insert_at"][1], ln)
        node = tr.doc
    T = tk.doc_tokens(c.model, d)
    op = case["op"]
    engine.arm()
    engine.kick(30)
    total = case["schema"] in ZOO_TOTAL
    try:
        if op["op"] == "replace_step":
            try:
                st = adapters.pm_transform.replace_step(node, op["from"], op["to"], c.slice(op["slice"]))
                if st is not None and st.apply(node).failed and total:
                    res.violate("c11.replace_step.does-not-apply", case, "failed")
            except Exception as e:  # noqa: BLE001
                if total:
                    res.violate("c11.raises", case, common.exc_str(e), fingerprint="c11.raises:" + common.exc_fp(e))
        else:
            status, tr, exc = ops.run_op(c, node, op)
            check_result(c, d, T, op, status, tr, exc, res, total)
    except engine.Watchdog:
        res.violate("c11.hang", case, "watchdog")
    engine.disarm()
    return res.violations
