"""C15 — content filling and wrapper search are sound and complete (explorers E3 + E1)."""

from __future__ import annotations

import itertools

from .. import adapters, engine
from ..ref import cexpr, validity
from ..ref import tokens as tk
from ..universe import gen_expr, schemas
from . import c06, common

PROPERTY_ID = "C15"


def describe():
    return {
        "rule": "fill_before: every expression tree up to the node bound x every reachable match state x every "
                "`after` fragment of <= 2 children x start index x to_end; find_wrapping: every zoo / F-gen schema x "
                "every node type x every reachable match state x every target type; create_and_fill: every type x "
                "child sequences <= 2.  non-trivial = calls that returned a non-None answer (counted)",
        "assumptions": [
            "expressions bounded by syntax-tree size; `after` fragments of at most 2 children",
            "F-gen schemas have acyclic containment (fillers terminate by construction)",
            "reference = exact search on the Brzozowski-derivative automaton restricted to generatable symbols",
        ],
        "explanation": "E3 product exploration for fill_before, E1 for wrapping/create_and_fill on whole schemas",
    }


def units(tier, seed):
    q = tier == "quick"
    out = []

    def add(alpha, k, nb):
        for b in range(nb):
            out.append({"kind": "fill", "alpha": alpha, "k": k, "block": b, "nblocks": nb,
                        "name": f"fill/{alpha}/k={k}#{b}/{nb}"})

    for k in range(1, (4 if q else 5) + 1):
        add("required3", k, 1 if k < 3 else (4 if k == 3 else (32 if k == 4 else 256)))
    for k in range(1, (3 if q else 4) + 1):
        add("inline", k, 1 if k < 3 else 4 if k == 3 else 16)
    if q and seed % 2 == 1:
        add("inline", 4, 16)
    for k in range(1, (3 if q else 4) + 1):
        add("defnone3", k, 1 if k < 3 else 4 if k == 3 else 32)
    zoo = ["basic", "list", "strict_hb", "title", "fixed", "struct", "iso", "table", "topmarks", "attrs", "footnote",
           "chips"]
    for sid in zoo:
        out.append({"kind": "wrap", "sid": sid, "name": f"wrap/{sid}"})
    ids = schemas.fgen_ids()
    nb = 16 if q else 32
    step = 3 if q else 1
    sel = ids[(seed % step)::step]
    for b in range(nb):
        out.append({"kind": "wrapfam", "ids": [x for x in sel[b::nb]], "name": f"wrap/fgen#{b}/{nb}"})
    return out


# r is generatable: every attribute has a default, one of them an explicit None
c06.ALPHABETS["defnone3"] = (("a", "b", "r"), {"a": {}, "b": {}, "r": {"attrs": {"d": {"default": None}, "e": {"default": 0}}}})
c06.ALPHABETS["required3"] = (("a", "b", "r"), {"a": {}, "b": {}, "r": {"attrs": {"d": {"default": 0}, "x": {}}}})


def gen_ok(model, t):
    return model.types[t].generatable


def ref_fill_exists(model, r, after_types, to_end):
    """Exact: is there a word over generatable symbols leading from r to a state from which
    after_types matches (ending nullable if to_end)?"""
    gens = [t for t in model.type_names if gen_ok(model, t)]
    seen = {r}
    todo = [r]
    while todo:
        x = todo.pop()
        y = cexpr.run(x, after_types)
        if y != cexpr.EMPTY and (not to_end or cexpr.nullable(y)):
            return True
        for t in gens:
            d = cexpr.deriv(x, t)
            if d != cexpr.EMPTY and d not in seen:
                seen.add(d)
                todo.append(d)
    return False


def check_fill(alpha, expr, schema, model, res):
    doc_t = schema.nodes["doc"]
    m0 = doc_t.content_match
    r0 = model.types["doc"].regex
    tnames = list(model.type_names)
    types = {n: schema.nodes[n] for n in tnames}
    # reachable pairs (as in C06)
    seen = {(id(m0), r0)}
    keep = [m0]
    todo = [(m0, r0, ())]
    pairs = []
    while todo:
        m, r, path = todo.pop(0)
        pairs.append((m, r, path))
        for t in tnames:
            m2 = m.match_type(types[t])
            d = cexpr.deriv(r, t)
            if m2 is None or d == cexpr.EMPTY:
                continue
            if (id(m2), d) not in seen:
                seen.add((id(m2), d))
                keep.append(m2)
                todo.append((m2, d, (*path, t)))
    child_types = [t for t in tnames if t != "doc"]
    afters = [()]
    for n in (1, 2):
        afters.extend(itertools.product(child_types, repeat=n))
    size = len(expr)
    for m, r, path in pairs:
        res.states += 1
        for af in afters:
            frag = adapters.Fragment([c06._mk(types[t]) for t in af])
            for start in range(len(af) + 1):
                for to_end in (False, True):
                    res.transitions += 1
                    case = {"kind": "fill", "alpha": alpha, "expr": expr, "path": list(path), "after": list(af),
                            "start": start, "to_end": to_end}
                    engine.kick()
                    try:
                        f = m.fill_before(frag, to_end, start)
                    except engine.Watchdog:
                        res.violate("c15.fill.hang", case, "watchdog", size=size)
                        continue
                    except Exception as e:  # noqa: BLE001
                        res.violate("c15.fill.raises", case, common.exc_str(e),
                                    fingerprint="c15.fill.raises:" + common.exc_fp(e), size=size)
                        continue
                    rest = list(af[start:])
                    res.validated += 1
                    if f is None:
                        res.clause("c15.fill.none")
                        if ref_fill_exists(model, r, rest, to_end):
                            res.violate("c15.fill.incomplete", case, None, "a filling exists", size=size)
                        continue
                    res.nontrivial += 1
                    res.clause("c15.fill.some")
                    ft = [f.child(i).type.name for i in range(f.child_count)]
                    bad = [t for t in ft if not gen_ok(model, t)]
                    if bad:
                        res.violate("c15.fill.nongeneratable", case, ft, size=size)
                        continue
                    y = cexpr.run(r, ft + rest)
                    if y == cexpr.EMPTY or (to_end and not cexpr.nullable(y)):
                        res.violate("c15.fill.unsound", case, ft, "combined sequence must match", size=size)
        # default_type at every state = first generatable edge
        dt = m.default_type
        first_gen = next((m.edge(i).type.name for i in range(m.edge_count) if gen_ok(model, m.edge(i).type.name)), None)
        if (dt.name if dt else None) != first_gen:
            res.violate("c15.default_type", {"kind": "fill", "alpha": alpha, "expr": expr, "path": list(path)},
                        dt.name if dt else None, first_gen, size=size)


def ref_wrapping_len(model, r, target):
    """Shortest wrapper chain length from regex state r for target type, or None."""
    if cexpr.deriv(r, target) != cexpr.EMPTY:
        return 0

    def can_wrap(t):
        tm = model.types[t]
        return not tm.is_leaf and not tm.required_attrs

    frontier = []
    seen = set()
    for t in model.type_names:
        if can_wrap(t) and cexpr.deriv(r, t) != cexpr.EMPTY and t not in seen:
            seen.add(t)
            frontier.append(t)
    depth = 1
    while frontier:
        nxt = []
        for w in frontier:
            wr = model.types[w].regex
            if cexpr.deriv(wr, target) != cexpr.EMPTY:
                return depth
        for w in frontier:
            wr = model.types[w].regex
            for t in model.type_names:
                if t in seen or not can_wrap(t):
                    continue
                d = cexpr.deriv(wr, t)
                if d != cexpr.EMPTY and cexpr.nullable(d):
                    seen.add(t)
                    nxt.append(t)
        frontier = nxt
        depth += 1
    return None


def check_wrapping(c, res, reverse=False):
    """reverse=True: parents and targets are visited in reverse order (on a fresh Schema object), so that the
    per-state wrapping caches are filled in a different order than in the forward pass."""
    model, schema = c.model, c.schema
    tnames = list(model.type_names)
    if reverse:
        tnames = list(reversed(tnames))
    types = {n: schema.nodes[n] for n in tnames}
    for pname in tnames:
        pt = types[pname]
        m0 = pt.content_match
        r0 = model.types[pname].regex
        seen = {(id(m0), r0)}
        keep = [m0]
        todo = [(m0, r0, ())]
        while todo:
            m, r, path = todo.pop(0)
            res.states += 1
            for t in tnames:
                m2 = m.match_type(types[t])
                d = cexpr.deriv(r, t)
                if m2 is None or d == cexpr.EMPTY:
                    continue
                if (id(m2), d) not in seen and len(path) < 6:
                    seen.add((id(m2), d))
                    keep.append(m2)
                    todo.append((m2, d, (*path, t)))
            for target in tnames:
                case = {"kind": "wrap", "schema": c.id, "spec": _plain(c), "parent": pname, "path": list(path),
                        "target": target}
                res.transitions += 1
                engine.kick()
                try:
                    w = m.find_wrapping(types[target])
                    w2 = m.find_wrapping(types[target])  # cached answer must be the same
                except engine.Watchdog:
                    res.violate("c15.wrap.hang", case, "watchdog")
                    continue
                except Exception as e:  # noqa: BLE001
                    res.violate("c15.wrap.raises", case, common.exc_str(e),
                                fingerprint="c15.wrap.raises:" + common.exc_fp(e))
                    continue
                res.validated += 1
                exp_len = ref_wrapping_len(model, r, target)
                names = None if w is None else [x.name for x in w]
                if (w2 is None) != (w is None) or (w is not None and [x.name for x in w2] != names):
                    res.violate("c15.wrap.cache", case, names)
                if w is None:
                    res.clause("c15.wrap.none")
                    if exp_len is not None:
                        res.violate("c15.wrap.incomplete", case, None, f"a chain of length {exp_len} exists")
                    continue
                res.nontrivial += 1
                res.clause("c15.wrap.some")
                ok = True
                why = ""
                chain = [*names, target]
                for i, wn in enumerate(names):
                    tm = model.types[wn]
                    if tm.is_leaf or tm.required_attrs:
                        ok, why = False, f"{wn} is a leaf or needs attributes"
                if ok:
                    if cexpr.deriv(r, chain[0]) == cexpr.EMPTY:
                        ok, why = False, f"{chain[0]} not allowed at the position"
                for i in range(len(names)):
                    if not ok:
                        break
                    d = cexpr.deriv(model.types[names[i]].regex, chain[i + 1])
                    if d == cexpr.EMPTY:
                        ok, why = False, f"{names[i]} cannot start with {chain[i + 1]}"
                    elif i + 1 < len(names) and not cexpr.nullable(d):
                        ok, why = False, f"{names[i]} cannot hold {chain[i + 1]} as its only child"
                if not ok:
                    res.violate("c15.wrap.unsound", case, names, why)
                elif exp_len is None or len(names) != exp_len:
                    res.violate("c15.wrap.not-shortest", case, names, exp_len)
    # create_and_fill
    for tname in tnames:
        t = types[tname]
        tm = model.types[tname]
        if tm.is_text:
            continue
        kids_opts = [()]
        child_types = [x for x in tnames if x != model.top]
        for n in (1, 2):
            kids_opts.extend(itertools.product(child_types, repeat=n))
        attrs = {a: 1 for a in tm.required_attrs} or None
        for kids in kids_opts:
            case = {"kind": "caf", "schema": c.id, "spec": _plain(c), "type": tname, "children": list(kids)}
            res.transitions += 1
            engine.kick()
            try:
                content = [c06._mk(types[k]) for k in kids]
                node = t.create_and_fill(attrs, content)
            except engine.Watchdog:
                res.violate("c15.caf.hang", case, "watchdog")
                continue
            except Exception as e:  # noqa: BLE001
                res.violate("c15.caf.raises", case, common.exc_str(e), fingerprint="c15.caf.raises:" + common.exc_fp(e))
                continue
            res.validated += 1
            already_valid = cexpr.matches(tm.regex, list(kids)) and not (kids and tm.is_leaf)
            if node is None:
                res.clause("c15.caf.none")
                if already_valid and _kids_markless_ok(model, tname, kids):
                    # "... or nothing": the property allows create_and_fill to give up; counted, not reported
                    res.outcome("caf:none-for-already-valid-content")
                continue
            res.clause("c15.caf.some")
            res.nontrivial += 1
            j = node.to_json()
            prob = validity.shallow_problem(model, j)
            got_types = [k["type"] for k in j.get("content") or []]
            want = [k for i, k in enumerate(kids) if not (k == "text" and i and kids[i - 1] == "text")]
            if prob or not _subseq(want, got_types):
                res.violate("c15.caf.unsound", case, got_types, prob or "given children must be kept in order")
            else:
                # filler nodes (not the given ones) must be fully valid
                for k in j.get("content") or []:
                    if k["type"] not in kids and validity.node_problem(model, k):
                        res.violate("c15.caf.filler-invalid", case, tk.jkey(k)[:200])


def _kids_markless_ok(model, tname, kids):
    return True


def _subseq(small, big):
    it = iter(big)
    return all(any(x == y for y in it) for x in small)


def _plain(c):
    """Spec without callables (for replay files) — only for family schemas."""
    if c.id.startswith("fg"):
        return c.spec
    return None


def run_unit(u):
    res = engine.UnitResult(PROPERTY_ID)
    engine.arm()
    n = 0
    if u["kind"] == "fill":
        atoms = c06.ALPHABETS[u["alpha"]][0]
        tr = gen_expr.trees(tuple(atoms), u["k"], tuple(gen_expr.UNARY_ALL))
        for i in range(u["block"], len(tr), u["nblocks"]):
            expr = cexpr.render(tr[i])
            cls = c06.ref_classify(u["alpha"], expr)
            if cls[0] != "ok":
                res.clause("c15.expr-not-legal")
                continue
            got = c06.compile_real(c06.spec_for(u["alpha"], expr))
            if got[0] != "ok":
                res.clause("c15.expr-not-compiled(reported by C06)")
                continue
            check_fill(u["alpha"], expr, got[1], cls[1], res)
            n += 1
            if n == 1:
                res.sample({"kind": "fill", "alphabet": u["alpha"], "expr": expr})
        res.scopes.append({"unit": u["name"], "expressions": n, "completed": True})
    elif u["kind"] == "wrap":
        c = adapters.ctx(u["sid"])
        check_wrapping(c, res)
        check_wrapping(adapters.Ctx(u["sid"], c.spec), res, reverse=True)
        res.sample({"kind": "wrap", "schema": u["sid"]})
        res.scopes.append({"unit": u["name"], "schemas": 1, "completed": True})
    else:
        for sid, (i, j, k, v) in u["ids"]:
            c = adapters.Ctx(sid, schemas.fgen_spec(i, j, k, v))
            check_wrapping(c, res)
            check_wrapping(adapters.Ctx(sid, schemas.fgen_spec(i, j, k, v)), res, reverse=True)
            n += 1
        if u["ids"]:
            res.sample({"kind": "wrap", "schema": u["ids"][0][0], "spec": schemas.fgen_spec(*u["ids"][0][1])})
        res.scopes.append({"unit": u["name"], "schemas": n, "completed": True})
    engine.disarm()
    return res


def replay(case):
    res = engine.UnitResult(PROPERTY_ID)
    engine.arm()
    if case["kind"] == "fill":
        cls = c06.ref_classify(case["alpha"], case["expr"])
        got = c06.compile_real(c06.spec_for(case["alpha"], case["expr"]))
        if cls[0] == "ok" and got[0] == "ok":
            check_fill(case["alpha"], case["expr"], got[1], cls[1], res)
    else:
        c = adapters.Ctx(case["schema"], case["spec"]) if case.get("spec") else adapters.ctx(case["schema"])
        check_wrapping(c, res)
    engine.disarm()
    return res.violations
