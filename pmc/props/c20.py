"""C20 — document diffing terminates and reports the true first and last difference (explorer E2)."""

from __future__ import annotations

from .. import adapters, engine, ops
from ..ref import tokens as tk
from . import common

PROPERTY_ID = "C20"
jkey = tk.jkey


def describe():
    return {
        "rule": "(i) every transition (document, document after one menu operation) of the state graph - the two share "
                "sub-tree objects by identity - in both argument orders, at the top level and for corresponding child "
                "fragments; (ii) every ordered pair of independently built documents of small scopes incl. equal pairs; "
                "(iii) astral-text pairs. Oracle: longest common prefix / suffix of typed-close token sequences. "
                "non-trivial = pairs that differ (counted)",
        "assumptions": [
            "bounded scopes; operations from the reduced menu pools",
            "typed-close tokens: a close token repeats its node's markup, so token agreement = identical markup",
            "each call runs under a watchdog (0.5 s, >1000x the slowest legitimate call)",
        ],
        "explanation": "E2 over (before, after) pairs of the operation state graph + E1 over independent pairs",
    }


def units(tier, seed):
    q = tier == "quick"
    specs = [
        {"sid": "basic", "family": "blocks", "size": 5 if q else 6, "donor": ("blocks", 4), "max_slices": 25 if q else 80},
        {"sid": "list", "family": "lists", "size": 12 if q else 14, "donor": ("lists", 8), "max_slices": 25 if q else 80},
        {"sid": "basic", "family": "inline_s", "size": 4 if q else 5, "donor": ("inline_s", 3), "max_slices": 25 if q else 80},
        {"sid": "list", "family": "astral", "size": 5 if q else 6, "donor": ("astral", 4), "max_slices": 25 if q else 80},
    ]
    extra = [
        {"sid": "topmarks", "family": "topmarks", "size": 4 if q else 5, "donor": ("topmarks", 3), "max_slices": 20 if q else 60},
        {"sid": "table", "family": "table", "size": 12 if q else 14, "donor": ("table", 10), "max_slices": 20 if q else 60},
        {"sid": "struct", "family": "struct", "size": 6 if q else 7, "donor": ("struct", 5), "max_slices": 20 if q else 60},
    ]
    for sp in specs + extra:
        sp["offset"] = seed
    if q:
        specs.append(extra[seed % len(extra)])
    else:
        specs.extend(extra)
    out = common.doc_units(PROPERTY_ID, specs, per_scope_blocks=8 if q else 16)
    for u in out:
        u["kind"] = "transitions"
    for sid, fam, size in [("basic", "blocks", 5 if q else 6), ("list", "astral", 6 if q else 7),
                           ("basic", "inline_s", 4 if q else 5), ("topmarks", "topmarks", 4 if q else 5),
                           ("list", "lists", 12 if q else 14), ("attrs", "attrs_sub", 3), ("basic", "lowbyte", 5)]:
        nb = 8 if q else 16
        for b in range(nb):
            out.append({"kind": "pairs", "sid": sid, "family": fam, "size": size, "block": b, "nblocks": nb,
                        "name": f"pairs/{sid}/{fam}<={size}#{b}/{nb}"})
    return out


def expected(model, aj, bj):
    """(start, end) from typed-close token sequences of two content lists."""
    A = tk.typed(tk.content_tokens(model, aj))
    B = tk.typed(tk.content_tokens(model, bj))
    if A == B:
        return None, None
    i = 0
    m = min(len(A), len(B))
    while i < m and A[i] == B[i]:
        i += 1
    s = 0
    while s < m and A[len(A) - 1 - s] == B[len(B) - 1 - s]:
        s += 1
    return i, {"a": len(A) - s, "b": len(B) - s}


def check_pair(c, fa, fb, aj, bj, res, case, size):
    """fa, fb: live fragments; aj, bj: their JSON content lists."""
    model = c.model
    exp_s, exp_e = expected(model, aj, bj)
    if exp_s is not None:
        res.nontrivial += 1
    for name, fn, want in (("find_diff_start", lambda: fa.find_diff_start(fb), exp_s),
                           ("find_diff_end", lambda: fa.find_diff_end(fb), exp_e)):
        res.transitions += 1
        engine.kick(0.5)
        try:
            got = fn()
        except engine.Watchdog:
            res.violate(f"c20.{name}.hang", case, "did not terminate within 0.5 s", want, size=size)
            continue
        except Exception as e:  # noqa: BLE001
            res.violate(f"c20.{name}.raises", case, common.exc_str(e), want,
                        fingerprint=f"c20.{name}.raises:" + common.exc_fp(e), size=size)
            continue
        finally:
            engine.kick(30)
        res.validated += 1
        if got is not None and name == "find_diff_end":
            got = {"a": got["a"], "b": got["b"]}
        if got != want:
            res.violate(f"c20.{name}", case, got, want, size=size)
    # explicit start / end positions only shift the answer (0 is a legal value, not "use the default")
    try:
        for off in (0, 3):
            g = fa.find_diff_start(fb, off)
            w = None if exp_s is None else exp_s + off
            if g != w:
                res.violate("c20.find_diff_start.pos-argument", {**case, "pos": off}, g, w, size=size)
        for pa, pb in ((0, 0), (fa.size + 2, fb.size + 5), (fa.size, 0)):
            g = fa.find_diff_end(fb, pa, pb)
            w = None if exp_e is None else {"a": exp_e["a"] - fa.size + pa, "b": exp_e["b"] - fb.size + pb}
            if g is not None:
                g = {"a": g["a"], "b": g["b"]}
            if g != w:
                res.violate("c20.find_diff_end.pos-argument", {**case, "pos": [pa, pb]}, g, w, size=size)
    except engine.Watchdog:
        raise
    except Exception as e:  # noqa: BLE001
        res.violate("c20.pos-argument.raises", case, common.exc_str(e), size=size)


def check_docs(c, na, nb, aj, bj, res, case, size):
    check_pair(c, na.content, nb.content, aj.get("content") or [], bj.get("content") or [], res, case, size)
    # corresponding child fragments (positions relative to the child's content)
    for i in range(min(na.child_count, nb.child_count)):
        ca, cb = na.child(i), nb.child(i)
        if ca.is_text or cb.is_text or ca.is_leaf or cb.is_leaf:
            continue
        check_pair(c, ca.content, cb.content, (aj["content"][i].get("content") or []),
                   (bj["content"][i].get("content") or []), res, {**case, "child": i}, size)


def run_unit(u):
    res = engine.UnitResult(PROPERTY_ID)
    engine.arm()
    n = 0
    if u["kind"] == "transitions":
        c, sc, docs = common.unit_docs(u)
        pool = common.pool_slices(u["sid"], u["donor"][0], u["donor"][1])
        pools = ops.default_pools(c, sc, pool, u.get("max_slices"), offset=u.get("offset", 0))
        for d in docs:
            node = c.node(d)
            size = common.doc_size(c.model, d)
            res.states += 1
            # the document against itself: the very same object (equal => None, and terminate)
            check_docs(c, node, node, d, d, res, {"schema": c.id, "doc": d, "op": None}, size)
            seen = set()
            for op in ops.enumerate_ops(c.model, size, pools):
                engine.kick(10)
                try:
                    status, tr, exc = ops.run_op(c, node, op)
                except engine.Watchdog:
                    continue
                if status != "ok":
                    continue
                after = tr.doc
                aj = after.to_json()
                k = jkey(aj)
                if k in seen:
                    continue
                seen.add(k)
                case = {"schema": c.id, "doc": d, "op": op}
                check_docs(c, node, after, d, aj, res, case, size)
                check_docs(c, after, node, aj, d, res, {**case, "swapped": True}, size)
                n += 1
        if docs:
            res.sample({"kind": "transition", "schema": c.id, "doc": docs[-1], "op": {"op": "delete", "from": 1, "to": 2}})
        res.scopes.append({"unit": u["name"], "docs": len(docs), "distinct_transitions": n, "completed": True})
    else:
        c, sc, docs = common.scope_docs(u["sid"], u["family"], u["size"])
        docs = docs[:260]
        nodes = [c.node(d) for d in docs]
        twins = [c.node(d) for d in docs]  # independently built equal copies
        for i in range(u["block"], len(docs), u["nblocks"]):
            res.states += 1
            for j in range(len(docs)):
                other = twins[j] if i == j else nodes[j]
                check_docs(c, nodes[i], other, docs[i], docs[j], res,
                           {"schema": c.id, "a": docs[i], "b": docs[j], "independent": True}, i + j)
                n += 1
        if docs:
            res.sample({"kind": "pair", "schema": c.id, "a": docs[0], "b": docs[-1]})
        res.scopes.append({"unit": u["name"], "docs": len(docs), "pairs": n, "completed": True})
    engine.disarm()
    res.evaluations = res.transitions
    return res


def replay(case):
    res = engine.UnitResult(PROPERTY_ID)
    c = adapters.ctx(case["schema"])
    engine.arm()
    if case.get("independent"):
        check_docs(c, c.node(case["a"]), c.node(case["b"]), case["a"], case["b"], res, case, 0)
    else:
        node = c.node(case["doc"])
        if case.get("op") is None:
            check_docs(c, node, node, case["doc"], case["doc"], res, case, 0)
        else:
            status, tr, exc = ops.run_op(c, node, case["op"])
            if status == "ok":
                aj = tr.doc.to_json()
                if case.get("swapped"):
                    check_docs(c, tr.doc, node, aj, case["doc"], res, case, 0)
                else:
                    check_docs(c, node, tr.doc, case["doc"], aj, res, case, 0)
    engine.disarm()
    return res.violations
