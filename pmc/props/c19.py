"""C19 — HTML import is total and schema-valid; export then import is the identity (explorer E1)."""

from __future__ import annotations

import itertools
from functools import lru_cache

from .. import adapters, engine
from ..ref import html as rhtml
from ..ref import tokens as tk
from ..ref import validity
from ..universe import gen_docs, scopes
from . import common

PROPERTY_ID = "C19"
jkey = tk.jkey

VOID = {"hr", "br", "img", "!--c--"}

VOCAB_FULL = ["p", "h1", "blockquote", "pre", "ul", "ol", "li", "div", "hr", "table", "tr", "td",
              "em", "strong", 'a href="u"', "a", "code", 'span style="font-weight:bold"', "br",
              'img src="i.png"', "img", "script", "foo", "!--c--"]
TEXTS_FULL = ["a", " ", "a b", " a ", "\n"]
VOCAB_SMALL = ["p", "blockquote", "pre", "ul", "li", "div", "em", "strong", 'a href="u"', "code", "br",
               'img src="i.png"', 'span style="font-style:italic"', "foo", "!--c--"]
TEXTS_SMALL = ["a", " "]
FAMILIES = {
    "lists": (["ul", "ol", "li", "p"], ["a"]),
    "marks": (["p", "em", "strong", "b", "i", 'a href="u"', "code", 'span style="font-weight:bold"'], ["a", " ", "a b", " a "]),
    "tables": (["table", "tr", "td", "p", "ul", "li"], ["a"]),
    "breaks": (["p", "br", "pre", "code", "div"], ["a", " ", "\n", "a\nb"]),
}


def describe():
    return {
        "rule": "import: every HTML forest up to the node bound over the tag/text vocabulary (block, inline, list, table, "
                "ignorable tags, elements lacking attributes, style attributes, whitespace texts), parsed with from_html / "
                "DOMParser.parse / parse_slice under the basic, list and table schemas and under five context-restricted "
                "rule variants; export: every scope document serialised, re-read with lxml, and re-imported. "
                "non-trivial = imports that produced a document with at least one node / documents round-tripped (counted)",
        "assumptions": [
            "forest size bounded; lxml (libxml2) is the HTML reader both for the library and as independent re-reader",
            "round trip claimed for whitespace-normal documents whose attributes the bundled rules carry",
            "exact parse trees of malformed HTML are not compared - only termination, no exception, validity",
        ],
        "explanation": "E1 exhaustive HTML forests and documents",
    }


def tag_name(sym):
    return sym.split(" ")[0]


@lru_cache(maxsize=None)
def _forests(vocab, texts, k):
    """All forests with exactly k nodes; a forest is a tuple of trees; tree = ('t', text) | (sym, forest)."""
    if k == 0:
        return ((),)
    out = []
    for first in range(1, k + 1):
        for head in _trees(vocab, texts, first):
            for tail in _forests(vocab, texts, k - first):
                if head[0] == "t" and tail and tail[0][0] == "t":
                    continue
                out.append((head, *tail))
    return tuple(out)


@lru_cache(maxsize=None)
def _trees(vocab, texts, k):
    out = []
    if k == 1:
        for t in texts:
            out.append(("t", t))
    for sym in vocab:
        if tag_name(sym) in VOID:
            if k == 1:
                out.append((sym, ()))
        else:
            for kids in _forests(vocab, texts, k - 1):
                out.append((sym, kids))
    return tuple(out)


def render(forest):
    parts = []
    for tr in forest:
        if tr[0] == "t":
            parts.append(tr[1])
        else:
            name = tag_name(tr[0])
            if name == "!--c--":
                parts.append("<!--c-->")
            elif name in VOID:
                parts.append(f"<{tr[0]}>")
            else:
                parts.append(f"<{tr[0]}>{render(tr[1])}</{name}>")
    return "".join(parts)


def units(tier, seed):
    q = tier == "quick"
    out = []
    nb = 16 if q else 32
    for sid in ("basic", "list", "table"):
        # quick: the list schema gets all forests <= 3 nodes; of basic / table one (by seed) gets <= 3, the other <= 2
        n = 3
        if q and sid != "list" and (sid == "basic") != (seed % 2 == 0):
            n = 2
        for b in range(nb):
            out.append({"kind": "import", "sid": sid, "vocab": "full", "n": n, "block": b,
                        "nblocks": nb, "name": f"import/{sid}/full<={n}#{b}/{nb}"})
    if not q:
        for b in range(64):
            out.append({"kind": "import", "sid": "list", "vocab": "small", "n": 4, "block": b, "nblocks": 64,
                        "name": f"import/list/small<=4#{b}/64"})
    fams = list(FAMILIES)
    sel = [fams[seed % len(fams)], fams[(seed + 1) % len(fams)]] if q else fams
    for fam in sel:
        n = {"lists": (5, 6), "marks": (3, 4), "tables": (4, 5), "breaks": (4, 5)}[fam][0 if q else 1]
        nbf = 24 if q else 32
        for b in range(nbf):
            out.append({"kind": "import", "sid": "table" if fam == "tables" else "list", "vocab": fam, "n": n, "block": b,
                        "nblocks": nbf, "name": f"import/family/{fam}<={n}#{b}/{nbf}"})
    out.append({"kind": "slice_marks", "name": "parse_slice/marks at the open top level, two same-named schemas"})
    for cid in ("ctx_bq", "ctx_li", "ctx_bq_any", "ctx_alt", "ctx_grp", "ctx_gp", "ctx_bq_ga", "ctx_li_ga", "ctx_gp_ga",
                "ctx_bq_eq", "ctx_li_eq"):
        out.append({"kind": "context", "sid": cid, "n": 6 if q else 7, "name": f"context/{cid}"})
    exp = [
        {"sid": "basic", "family": "blocks", "size": 6 if q else 7},
        {"sid": "basic", "family": "html_inline", "size": 4 if q else 5, "blocks": 16},
        {"sid": "list", "family": "html_lists", "size": 10 if q else 14},
        {"sid": "list", "family": "astral", "size": 5 if q else 7},
        {"sid": "basic", "family": "html_special", "size": 5 if q else 6},
        {"sid": "basic", "family": "html_nbsp", "size": 6 if q else 7},
    ]
    for u in common.doc_units(PROPERTY_ID, exp, per_scope_blocks=8 if q else 16):
        u["kind"] = "export"
        out.append(u)
    return out


def vocab_of(u):
    if u["vocab"] == "full":
        return tuple(VOCAB_FULL), tuple(TEXTS_FULL)
    if u["vocab"] == "small":
        return tuple(VOCAB_SMALL), tuple(TEXTS_SMALL)
    v, t = FAMILIES[u["vocab"]]
    return tuple(v), tuple(t)


def lxml_fragment(html):
    import lxml.html

    return lxml.html.fragment_fromstring(html, create_parent="document-fragment")


def check_import(c, html, res, size):
    from prosemirror.model import DOMParser
    from prosemirror.model.from_dom import from_html

    case = {"schema": c.id, "html": html}
    res.transitions += 1
    engine.kick(2)
    try:
        j = from_html(c.schema, html)
    except engine.Watchdog:
        res.violate("c19.import.hang", case, "from_html did not terminate within 2 s", size=size)
        return None
    except Exception as e:  # noqa: BLE001
        res.violate("c19.import.raises", case, common.exc_str(e), fingerprint="c19.import.raises:" + common.exc_fp(e),
                    size=size)
        return None
    finally:
        engine.kick(30)
    res.validated += 1
    if j.get("content"):
        res.nontrivial += 1
    prob = validity.node_problem(c.model, j)
    if prob:
        res.violate("c19.import.invalid-document", case, prob + " :: " + jkey(j)[:300],
                    fingerprint="c19.import.invalid-document:" + prob.split(":")[-1].strip().split(" ")[0], size=size)
    # parse_slice on the same fragment: terminates, no exception, closed inner nodes valid
    res.transitions += 1
    engine.kick(2)
    try:
        parser = DOMParser.from_schema(c.schema)
        dom = lxml_fragment(html)
        parser.parse(dom)  # parse() rewrites text into pseudo elements in place; parse_slice alone ignores raw text
        sl = parser.parse_slice(dom)
        sj = sl.content.to_json() or []
    except engine.Watchdog:
        res.violate("c19.parse_slice.hang", case, "did not terminate within 2 s", size=size)
        return j
    except Exception as e:  # noqa: BLE001
        res.violate("c19.parse_slice.raises", case, common.exc_str(e),
                    fingerprint="c19.parse_slice.raises:" + common.exc_fp(e), size=size)
        return j
    finally:
        engine.kick(30)
    for i, nd in enumerate(sj):
        if 0 < i < len(sj) - 1:
            p = validity.node_problem(c.model, nd)
            if p:
                res.violate("c19.parse_slice.invalid-inner-node", case, p, size=size)
                break
    return j


def check_slice_marks(res):
    """parse_slice of marked inline content that sits directly at the (parent-less) top of the slice, under the basic
    schema and under a schema with the SAME node / mark names in which no textblock admits marks - alternating in one
    process.  No-marks variant: no text of the slice may carry a mark (what the basic schema keeps is only counted:
    fidelity of imports is not claimed by C19)."""
    from prosemirror.model import DOMParser

    tags = {"em": "em", "strong": "strong", "code": "code"}
    inputs = []
    for t1 in tags:
        inputs.append((f"<{t1}>a</{t1}>", [[t1]]))
        for t2 in tags:
            if t1 != t2:
                inputs.append((f"<{t1}><{t2}>a</{t2}></{t1}>", [[t1, t2]]))
                inputs.append((f"<{t1}>a</{t1}><{t2}>b</{t2}>", [[t1], [t2]]))
    inputs.append(("<em>a</em> b", [["em"], []]))
    cs = [adapters.ctx("basic"), adapters.ctx("basic_nomarks")]
    parsers = {c.id: DOMParser.from_schema(c.schema) for c in cs}
    for order in ((0, 1, 0), (1, 0, 1)):
        for html, marks in inputs:
            for k in order:
                c = cs[k]
                case = {"schema": c.id, "html": html, "kind": "slice_marks"}
                res.transitions += 1
                res.states += 1
                try:
                    dom = lxml_fragment(html)
                    parsers[c.id].parse(dom)  # (also turns text into the pseudo elements parse_slice expects)
                    sl = parsers[c.id].parse_slice(dom)
                    sj = sl.content.to_json() or []
                except Exception as e:  # noqa: BLE001
                    res.violate("c19.parse_slice.raises", case, common.exc_str(e),
                                fingerprint="c19.parse_slice.raises:" + common.exc_fp(e), size=len(html))
                    continue
                res.validated += 1
                got = [sorted(m["type"] for m in nd.get("marks") or []) for nd in sj if nd.get("type") == "text"]
                if c.id == "basic":
                    res.outcome("slice_marks:basic:" + ("kept" if got == [sorted(ms) for ms in marks] else "other"))
                elif any(got):
                    # no node type of this schema admits a mark on text: such content fits nowhere ("marks in places
                    # that forbid them" must not survive the import)
                    res.violate("c19.parse_slice.forbidden-marks", case, got, "no marks", size=len(html))
    res.scopes.append({"unit": "slice_marks", "inputs": len(inputs), "completed": True})


# ---------------------------------------------------------------------------
# context-restricted rules


def context_family(n):
    """Well-nested HTML over blockquote / ul>li / p with unique paragraph texts; returns
    [(html, [(text, ancestors node types)])]."""
    out = []
    letters = "abcdefgh"

    @lru_cache(maxsize=None)
    def forests(k, inside_list):
        # returns tuples of trees; tree: ('p',) | ('bq', forest) | ('ul', (li forests...))
        if k == 0:
            return ((),)
        res = []
        for first in range(1, k + 1):
            for head in trees(first, inside_list):
                for tail in forests(k - first, inside_list):
                    res.append((head, *tail))
        return tuple(res)

    @lru_cache(maxsize=None)
    def trees(k, inside_list):
        res = []
        if k == 1:
            res.append(("p",))
        if k >= 2:
            for kids in forests(k - 1, False):
                if kids:
                    res.append(("bq", kids))
        if k >= 3:
            # ul / ol with one li whose first child is a p
            for kids in forests(k - 2, False):
                if kids and kids[0] == ("p",):
                    res.append(("ul", kids))
                    res.append(("ol", kids))
        return tuple(res)

    for k in range(1, n + 1):
        for f in forests(k, False):
            counter = [0]
            expect = []

            def rend(forest, anc):
                s = []
                for t in forest:
                    if t[0] == "p":
                        txt = letters[counter[0] % len(letters)] * (1 + counter[0] // len(letters))
                        counter[0] += 1
                        expect.append((txt, list(anc)))
                        s.append(f"<p>{txt}</p>")
                    elif t[0] == "bq":
                        s.append("<blockquote>" + rend(t[1], [*anc, "blockquote"]) + "</blockquote>")
                    elif t[0] == "ul":
                        s.append("<ul><li>" + rend(t[1], [*anc, "bullet_list", "list_item"]) + "</li></ul>")
                    else:
                        s.append("<ol><li>" + rend(t[1], [*anc, "ordered_list", "list_item"]) + "</li></ol>")
                return "".join(s)

            html = rend(f, ["doc"])
            out.append((html, expect))
    return out


def find_text_parent(node, text):
    """type of the node whose direct text child is exactly `text`."""
    for k in node.get("content") or []:
        if k["type"] == "text":
            if k["text"] == text:
                return node["type"]
        else:
            r = find_text_parent(k, text)
            if r:
                return r
    return None


def check_context(c, res, n):
    from prosemirror.model.from_dom import from_html

    ctx = c.spec["context"]
    model = c.model
    groups_of = lambda t: model.types[t].groups  # noqa: E731
    fam = context_family(n)
    hangs = 0
    for html, expect in fam:
        case = {"schema": c.id, "context": ctx, "html": html}
        res.transitions += 1
        res.states += 1
        engine.kick(2)
        try:
            j = from_html(c.schema, html)
        except engine.Watchdog:
            res.violate("c19.context.hang", case, "from_html did not terminate within 2 s", size=len(html))
            hangs += 1
            if hangs >= 3:
                res.caps.append(f"{c.id}: stopped after 3 hangs")
                break
            continue
        except Exception as e:  # noqa: BLE001
            res.violate("c19.context.raises", case, common.exc_str(e), fingerprint="c19.context.raises:" + common.exc_fp(e),
                        size=len(html))
            continue
        finally:
            engine.kick(30)
        res.validated += 1
        res.nontrivial += 1
        prob = validity.node_problem(model, j)
        if prob:
            res.violate("c19.context.invalid-document", case, prob, size=len(html))
            continue
        for text, anc in expect:
            want = "note" if rhtml.context_matches(ctx, anc, groups_of) else "paragraph"
            got = find_text_parent(j, text)
            if got != want:
                res.violate("c19.context.rule-application", {**case, "text": text, "ancestors": anc}, got, want,
                            size=len(html))
                break
    res.sample({"schema": c.id, "context": ctx, "html": fam[min(len(fam) - 1, 7)][0]})
    res.scopes.append({"unit": f"context/{c.id}", "inputs": len(fam), "completed": not res.caps})


# ---------------------------------------------------------------------------
# export and round trip


def export_scope(model, family, sid, size):
    from ..universe.scopes import EM, LINK, STRONG, _ms

    if family == "html_inline":
        s = {
            "types": ["doc", "paragraph", "heading", "code_block", "text", "hard_break", "image"],
            "texts": ["a", "b c", " "],
            "marksets": _ms(model, [], [EM], [STRONG], [EM, STRONG], [("link", {"href": 'u?a=1&b="2"', "title": None})],
                            [("code", None)], [("link", {"href": "", "title": None})]),
            "attrs": {"image": [{"src": "i.png"}, {"src": "x&y.png", "title": 'T"<'}, {"src": "", "title": ""},
                                # values that already LOOK like character references must come back verbatim
                                {"src": "q?a=1&amp;b=2", "title": "&#38;&quot;"}],
                      "heading": [{"level": 3}]},
            "max_children": 3,
        }
    elif family == "html_lists":
        s = {
            "types": ["doc", "paragraph", "bullet_list", "ordered_list", "list_item", "text"],
            "texts": ["a"],
            "attrs": {"ordered_list": [{"order": 1}, {"order": 3}]},
            "max_children": 2,
            "max_depth": 5,
        }
    elif family == "html_nbsp":
        s = {
            "types": ["doc", "paragraph", "text"],
            "texts": ["a\u00a0", " b", "c", "\u00a0"],
            "marksets": _ms(model, [], [EM]),
            "max_children": 3,
        }
    elif family == "html_special":
        s = {
            "types": ["doc", "paragraph", "code_block", "heading", "text"],
            "texts": ["<", "&", "\"'", ">", "a", "&amp;", "a\u00a0", "\u2003"],
            "attrs": {"heading": [{"level": 6}]},
            "max_children": 2,
        }
    else:
        return scopes.scope(model, family, sid, size)
    s["types"] = [t for t in s["types"] if t in model.types]
    s["max_size"] = size
    s["family"] = family
    s["schema"] = sid
    s["name"] = f"{sid}/{family}<={size}"
    _ = (EM, LINK, STRONG)
    return s


def doc_text(model, node, out):
    for k in node.get("content") or []:
        if k["type"] == "text":
            out.append(k["text"])
        elif not model.types[k["type"]].is_leaf:
            doc_text(model, k, out)


def collect(node, out):
    for k in node.get("content") or []:
        out.append(k)
        collect(k, out)


def carried(model, d):
    """Attributes the bundled parse rules carry (others must have their default)."""
    nodes = []
    collect(d, nodes)
    for n in nodes:
        a = n.get("attrs") or {}
        if n["type"] == "image" and a.get("alt") is not None:
            return False
        if n["type"] == "ordered_list" and a.get("order") != 1:
            return False
        for m in n.get("marks") or []:
            if m["type"] == "link" and (m.get("attrs") or {}).get("title") is not None:
                return False
    return True


def check_export(c, d, res):
    import lxml.html
    from prosemirror.model import DOMParser, DOMSerializer

    model = c.model
    node = c.node(d)
    size = common.doc_size(model, d)
    case = {"schema": c.id, "doc": d}
    res.transitions += 1
    res.states += 1
    engine.kick(5)
    try:
        ser = DOMSerializer.from_schema(c.schema)
        frag = ser.serialize_fragment(node.content)
        html = str(frag)
        # serialize_node on every top-level child gives the same markup
        parts = "".join(str(ser.serialize_node(node.child(i))) for i in range(node.child_count))
    except engine.Watchdog:
        res.violate("c19.export.hang", case, "watchdog", size=size)
        return
    except Exception as e:  # noqa: BLE001
        res.violate("c19.export.raises", case, common.exc_str(e), fingerprint="c19.export.raises:" + common.exc_fp(e),
                    size=size)
        return
    finally:
        engine.kick(30)
    if not any((n.get("marks") for n in d.get("content") or [])) and parts != html:
        res.violate("c19.export.serialize_node-differs", case, parts[:300], html[:300], size=size)
    # independent re-reading: text and attribute values survive (escaping)
    res.validated += 1
    root = lxml.html.fragment_fromstring(html, create_parent="div")
    want_text = []
    doc_text(model, d, want_text)
    got_text = root.text_content()
    if got_text != "".join(want_text):
        res.violate("c19.export.text-escaping", {**case, "html": html}, got_text[:200], "".join(want_text)[:200], size=size)
    nodes = []
    collect(d, nodes)
    hrefs = {m["attrs"]["href"] for n in nodes for m in n.get("marks") or [] if m["type"] == "link"}
    got_hrefs = {a.get("href") for a in root.iter("a")}
    if hrefs != got_hrefs:
        res.violate("c19.export.attr-escaping", {**case, "html": html}, sorted(map(str, got_hrefs)), sorted(map(str, hrefs)), size=size)
    srcs = sorted(((n["attrs"]["src"], n["attrs"].get("title")) for n in nodes if n["type"] == "image"), key=repr)
    got_srcs = sorted(((i.get("src"), i.get("title")) for i in root.iter("img")), key=repr)
    if srcs != got_srcs:
        res.violate("c19.export.attr-escaping", {**case, "html": html}, got_srcs, srcs, size=size)
    orders = sorted(str(n["attrs"]["order"]) for n in nodes if n["type"] == "ordered_list" and n["attrs"]["order"] != 1)
    got_orders = sorted(str(o.get("start")) for o in root.iter("ol") if o.get("start") is not None)
    if orders != got_orders:
        res.violate("c19.export.attr-value", {**case, "html": html}, got_orders, orders, size=size)
    # round trip
    if rhtml.whitespace_normal(model, d) and carried(model, d):
        res.transitions += 1
        engine.kick(5)
        try:
            back = DOMParser.from_schema(c.schema).parse(lxml_fragment(html))
            bj = back.to_json()
        except engine.Watchdog:
            res.violate("c19.roundtrip.hang", {**case, "html": html}, "watchdog", size=size)
            return
        except Exception as e:  # noqa: BLE001
            res.violate("c19.roundtrip.raises", {**case, "html": html}, common.exc_str(e),
                        fingerprint="c19.roundtrip.raises:" + common.exc_fp(e), size=size)
            return
        finally:
            engine.kick(30)
        res.nontrivial += 1
        if jkey(bj) != jkey(d):
            res.violate("c19.roundtrip.differs", {**case, "html": html}, jkey(bj)[:400], jkey(d)[:400], size=size)
    else:
        res.clause("c19.roundtrip.not-claimed(not whitespace-normal or attrs not carried)")


def run_unit(u):
    res = engine.UnitResult(PROPERTY_ID)
    engine.arm()
    if u["kind"] == "import":
        c = adapters.ctx(u["sid"])
        vocab, texts = vocab_of(u)
        idx = 0
        n = 0
        for k in range(0, u["n"] + 1):
            for f in _forests(vocab, texts, k):
                if idx % u["nblocks"] == u["block"]:
                    html = render(f)
                    check_import(c, html, res, len(html))
                    res.states += 1
                    n += 1
                    if n == 40:
                        res.sample({"schema": c.id, "html": html})
                idx += 1
        res.scopes.append({"unit": u["name"], "inputs": n, "completed": True})
    elif u["kind"] == "slice_marks":
        check_slice_marks(res)
    elif u["kind"] == "context":
        c = adapters.ctx(u["sid"])
        check_context(c, res, u["n"])
    else:
        c = adapters.ctx(u["sid"])
        sc = export_scope(c.model, u["family"], u["sid"], u["size"])
        docs = gen_docs.gen_docs(c.model, sc)
        mine = docs[u["block"]:: u["nblocks"]]
        for d in mine:
            check_export(c, d, res)
        if mine:
            res.sample({"schema": c.id, "doc": mine[-1]})
        res.scopes.append({"unit": u["name"], "docs": len(mine), "completed": True})
    engine.disarm()
    res.evaluations = res.transitions
    return res


def replay(case):
    res = engine.UnitResult(PROPERTY_ID)
    c = adapters.ctx(case["schema"])
    engine.arm()
    if case.get("kind") == "slice_marks":
        check_slice_marks(res)
    elif "doc" in case:
        check_export(c, case["doc"], res)
    elif "context" in case:
        check_context(c, res, 5)
    else:
        check_import(c, case["html"], res, 0)
    engine.disarm()
    _ = itertools
    return res.violations
