"""C14 — mark sets are canonical and respect exclusion / permission rules (explorer E2).

Per mark configuration the graph of mark sets reachable from [] by additions and removals is explored
to closure (it is finite), checking the invariant in every state and the reference rule on every transition.
"""

from __future__ import annotations

import itertools

from .. import adapters, engine
from ..ref import marks as rmk
from ..ref.tokens import jkey
from ..universe import schemas
from . import common

PROPERTY_ID = "C14"
Mark = adapters.Mark


def describe():
    return {
        "rule": "every configuration of the F-marks family (8^3 exclusion declarations x 6 rank orders, groups, "
                "attributes) and every zoo schema: mark-set graph from [] under add/remove with every mark, explored to "
                "closure; set_from on all permutations of all subsets; same_set on all pairs; allowed_marks on every "
                "list of <= 3 marks for every parent type. non-trivial = add transitions that changed the set (counted)",
        "assumptions": [
            "3 mark types (one with two attribute values) per family configuration; zoo schemas use their own marks",
            "mutual exclusion: the new mark wins (upstream documentation)",
        ],
        "explanation": "E2 explicit-state exploration of the mark-set graph per configuration",
    }


def units(tier, seed):
    q = tier == "quick"
    out = []
    nb = 16 if q else 48
    norders = 6
    orders = list(range(norders))
    for o in orders:
        for b in range(4 if q else nb // 6):
            nbb = 4 if q else nb // 6
            out.append({"kind": "family", "order": o, "block": b, "nblocks": nbb, "name": f"fmarks/order{o}#{b}/{nbb}"})
    for sid in ["basic", "list", "struct", "topmarks", "attrs"]:
        out.append({"kind": "zoo", "sid": sid, "name": f"zoo/{sid}"})
    # marks of one type whose list- / dict-valued attribute values are prefixes / key-subsets of one another
    out.append({"kind": "zoo", "sid": "attrs", "structured": True, "name": "zoo/attrs/structured-values"})
    return out


def family_marks(model):
    return [
        {"type": "A", "attrs": {"id": 0}},
        {"type": "A", "attrs": {"id": 1}},
        {"type": "B", "attrs": {}},
        {"type": "C", "attrs": {}},
    ]


def zoo_marks(c):
    m = c.model
    out = []
    for name, mm in m.marks.items():
        if mm.required_attrs or mm.attrs:
            a1 = {a: "u" for a in mm.required_attrs}
            a2 = {a: "v" for a in mm.required_attrs} or {mm.attrs[0]: "zz"}
            out.append({"type": name, "attrs": m.full_mark_attrs(name, a1)})
            out.append({"type": name, "attrs": m.full_mark_attrs(name, a2)})
        else:
            out.append({"type": name, "attrs": {}})
    return out[:6]


def key(js):
    return jkey(js)


def explore(c, marks_j, res, max_states=400):
    model, schema = c.model, c.schema
    live = [c.mark(m) for m in marks_j]
    base = {"schema": c.id, "spec": c.spec if c.id.startswith("fm") else None}
    # --- graph exploration to closure
    start: list = []
    seen = {key(start): (start, [])}
    todo = [(start, [], [])]  # (json set, live set, history)
    nstates = 0
    while todo:
        sj, sl, hist = todo.pop(0)
        nstates += 1
        res.states += 1
        # invariant: canonical in every reachable state
        ranks = [model.mark_rank(m["type"]) for m in sj]
        if ranks != sorted(ranks) or any(rmk.mark_eq(sj[i], sj[j]) for i in range(len(sj)) for j in range(i + 1, len(sj))):
            res.violate("c14.canonical", {**base, "history": hist}, sj, size=len(hist))
        for mj, ml in zip(marks_j, live):
            # add
            res.transitions += 1
            case = {**base, "history": hist, "op": "add", "mark": mj}
            try:
                got_l = ml.add_to_set(sl)
                got = adapters.marks_json(got_l)
            except Exception as e:  # noqa: BLE001
                res.violate("c14.add.raises", case, common.exc_str(e), size=len(hist))
                continue
            exp = rmk.add(model, mj, sj)
            res.validated += 1
            if key(got) != key(exp):
                res.violate("c14.add", case, got, exp, size=len(hist))
            elif key(got) != key(sj):
                res.nontrivial += 1
            if key(adapters.marks_json(sl)) != key(sj):
                res.violate("c14.add.mutated-input", case, adapters.marks_json(sl), sj, size=len(hist))
            if key(got) not in seen and len(seen) < max_states:
                seen[key(got)] = (got, got_l)
                todo.append((got, got_l, [*hist, ["add", mj]]))
            # remove (mark)
            res.transitions += 1
            case = {**base, "history": hist, "op": "remove", "mark": mj}
            got_l = ml.remove_from_set(sl)
            got = adapters.marks_json(got_l)
            exp = rmk.remove(mj, sj)
            res.validated += 1
            if key(got) != key(exp):
                res.violate("c14.remove", case, got, exp, size=len(hist))
            if key(got) not in seen and len(seen) < max_states:
                seen[key(got)] = (got, got_l)
                todo.append((got, got_l, [*hist, ["remove", mj]]))
            # membership
            if ml.is_in_set(sl) != rmk.in_set(mj, sj):
                res.violate("c14.is_in_set", case, ml.is_in_set(sl), rmk.in_set(mj, sj), size=len(hist))
        for tname in model.mark_names:
            mt = schema.marks[tname]
            res.transitions += 1
            got = adapters.marks_json(mt.remove_from_set(sl))
            exp = rmk.remove_type(tname, sj)
            if key(got) != key(exp):
                res.violate("c14.type.remove_from_set", {**base, "history": hist, "type": tname}, got, exp, size=len(hist))
            found = mt.is_in_set(sl)
            exp_f = next((m for m in sj if m["type"] == tname), None)
            if (found.to_json() if found else None) != exp_f:
                res.violate("c14.type.is_in_set", {**base, "history": hist, "type": tname},
                            found.to_json() if found else None, exp_f, size=len(hist))
    if len(seen) >= max_states:
        res.caps.append(f"{c.id}: state cap {max_states}")
    # --- same_set on all pairs of reachable sets (and a permutation of each)
    states = list(seen.values())
    for (aj, al) in states:
        for (bj, bl) in states:
            res.transitions += 1
            if Mark.same_set(al, bl) != rmk.same_set(aj, bj):
                res.violate("c14.same_set", {**base, "a": aj, "b": bj}, Mark.same_set(al, bl), rmk.same_set(aj, bj))
        if len(al) >= 2:
            rev = list(reversed(al))
            if Mark.same_set(al, rev) != rmk.same_set(aj, list(reversed(aj))):
                res.violate("c14.same_set.permuted", {**base, "a": aj}, Mark.same_set(al, rev))
    # --- excludes relation, eq
    for a in model.mark_names:
        for b in model.mark_names:
            if schema.marks[a].excludes(schema.marks[b]) != model.mark_excludes(a, b):
                res.violate("c14.excludes", {**base, "a": a, "b": b}, schema.marks[a].excludes(schema.marks[b]),
                            model.mark_excludes(a, b))
    for (aj, al) in zip(marks_j, live):
        for (bj, bl) in zip(marks_j, live):
            if al.eq(bl) != rmk.mark_eq(aj, bj):
                res.violate("c14.eq", {**base, "a": aj, "b": bj}, al.eq(bl), rmk.mark_eq(aj, bj))
        # a structurally equal but distinct object is equal too
        twin = c.mark(aj)
        if not al.eq(twin) or not twin.eq(al):
            res.violate("c14.eq.twin", {**base, "a": aj}, False, True)
    # --- set_from: all permutations of all subsets
    idx = list(range(len(marks_j)))
    for r in range(0, min(4, len(idx)) + 1):
        for combo in itertools.permutations(idx, r):
            lst = [live[i] for i in combo]
            lj = [marks_j[i] for i in combo]
            res.transitions += 1
            got = adapters.marks_json(Mark.set_from(lst))
            exp = rmk.canon_set(model, lj)
            if key(got) != key(exp):
                res.violate("c14.set_from", {**base, "marks": lj}, got, exp, size=r)
            if key(adapters.marks_json(lst)) != key(lj):
                res.violate("c14.set_from.mutated-input", {**base, "marks": lj}, adapters.marks_json(lst), lj, size=r)
    single = Mark.set_from(live[0])
    if key(adapters.marks_json(single)) != key([marks_j[0]]) or Mark.set_from(None) != [] or Mark.set_from([]) != []:
        res.violate("c14.set_from.single", base, adapters.marks_json(single))
    # --- permissions: every parent type x every list of <= 3 marks
    lists = [()]
    for r in (1, 2, 3):
        lists.extend(itertools.product(idx, repeat=r))
    for pname in model.type_names:
        pt = schema.nodes[pname]
        for tname in model.mark_names:
            res.transitions += 1
            if pt.allows_mark_type(schema.marks[tname]) != model.allows_mark(pname, tname):
                res.violate("c14.allows_mark_type", {**base, "parent": pname, "type": tname},
                            pt.allows_mark_type(schema.marks[tname]), model.allows_mark(pname, tname))
        for combo in lists:
            lst = [live[i] for i in combo]
            lj = [marks_j[i] for i in combo]
            res.transitions += 1
            case = {**base, "parent": pname, "marks": lj}
            try:
                got_l = pt.allowed_marks(lst)
                got = adapters.marks_json(got_l)
            except Exception as e:  # noqa: BLE001
                res.violate("c14.allowed_marks.raises", case, common.exc_str(e), size=len(lj))
                continue
            exp = rmk.allowed(model, pname, lj)
            res.validated += 1
            if key(got) != key(exp):
                res.violate("c14.allowed_marks", case, got, exp, size=len(lj))
            if key(adapters.marks_json(lst)) != key(lj):
                res.violate("c14.allowed_marks.mutated-input", case, adapters.marks_json(lst), lj, size=len(lj))
            ok = pt.allows_marks(lst)
            if ok != (len(exp) == len(lj)):
                res.violate("c14.allows_marks", case, ok, len(exp) == len(lj), size=len(lj))
    return nstates


def run_unit(u):
    res = engine.UnitResult(PROPERTY_ID)
    n = 0
    if u["kind"] == "family":
        import itertools as it

        orders = list(it.permutations(["A", "B", "C"]))
        fam = schemas.mark_family_specs([orders[u["order"]]])
        for i in range(u["block"], len(fam), u["nblocks"]):
            sid, spec = fam[i]
            sid = f"fm{u['order']}.{sid.split('.')[1]}"
            c = adapters.Ctx(sid, spec)
            explore(c, family_marks(c.model), res)
            n += 1
            if n == 1:
                res.sample({"schema": sid, "marks": spec["marks"], "history": [["add", {"type": "B", "attrs": {}}]]})
        res.scopes.append({"unit": u["name"], "configurations": n, "completed": True})
    else:
        c = adapters.ctx(u["sid"])
        if u.get("structured"):
            vals = [[], ["t"], {"k": 1}, {"k": 1, "j": 2}]
            explore(c, [{"type": "note", "attrs": {"id": "u", "tags": v}} for v in vals], res)
            res.scopes.append({"unit": u["name"], "configurations": 1, "completed": True})
            res.evaluations = res.transitions
            return res
        explore(c, zoo_marks(c), res)
        res.sample({"schema": u["sid"], "marks": zoo_marks(c)[:2]})
        res.scopes.append({"unit": u["name"], "configurations": 1, "completed": True})
    res.evaluations = res.transitions
    return res


def replay(case):
    res = engine.UnitResult(PROPERTY_ID)
    if case.get("spec"):
        c = adapters.Ctx(case["schema"], case["spec"])
        explore(c, family_marks(c.model), res)
    else:
        c = adapters.ctx(case["schema"])
        explore(c, zoo_marks(c), res)
    return res.violations
