"""C01 — applying a step never yields a schema-invalid document (explorer E1)."""

from __future__ import annotations

import json

from .. import adapters, engine
from ..ref import tokens as tk
from ..ref import validity
from ..universe import gen_steps
from . import common

PROPERTY_ID = "C01"
jkey = tk.jkey


def describe():
    return {
        "rule": "scope documents x every step of the eight types: ReplaceStep for all ranges x pool slices x structure "
                "flag; ReplaceAroundStep in the wrap / unwrap / retag shapes for all ranges (thorough: all quadruples "
                "on small documents); Add/RemoveMarkStep for all ranges x marks; node-mark, attr and doc-attr steps "
                "for all positions x attribute names x values; each applied as built and after a JSON encode/decode. "
                "non-trivial = distinct (doc, step) pairs whose application returned a document (counted)",
        "assumptions": [
            "bounded scopes; payloads are schema-valid (slices cut from valid documents, chains of empty wrappers)",
            "ValueError family (ReplaceError, TransformError, UnicodeError) counts as reported failure",
        ],
        "explanation": "E1 exhaustive step application; every returned document validated at every node by the reference",
    }


def scope_specs(tier, seed):
    q = tier == "quick"
    specs = [
        {"sid": "basic", "family": "blocks", "size": 5 if q else 6, "donor": ("blocks", 4 if q else 5)},
        {"sid": "basic", "family": "inline_s", "size": 4 if q else 5, "donor": ("inline_s", 3 if q else 4)},
        {"sid": "list", "family": "lists", "size": 12 if q else 14, "donor": ("lists", 8 if q else 10)},
        {"sid": "list", "family": "lists_q", "size": 9 if q else 10, "donor": ("lists_q", 7 if q else 8)},
        {"sid": "table", "family": "table", "size": 12 if q else 14, "donor": ("table", 10 if q else 12)},
        {"sid": "topmarks", "family": "topmarks", "size": 4 if q else 5, "donor": ("topmarks", 3 if q else 4)},
        {"sid": "inlstrict", "family": "inlstrict", "size": 4 if q else 5, "donor": ("inlstrict", 3)},
    ]
    extra = [
        {"sid": "iso", "family": "iso", "size": 7 if q else 8, "donor": ("iso", 6 if q else 7)},
        {"sid": "struct", "family": "struct", "size": 6 if q else 7, "donor": ("struct", 5 if q else 6)},
        {"sid": "strict_hb", "family": "strict", "size": 9 if q else 10, "donor": ("strict", 8 if q else 9)},
        {"sid": "title", "family": "title", "size": 8 if q else 10, "donor": ("title", 7 if q else 8)},
        {"sid": "attrs", "family": "attrs", "size": 3 if q else 4, "donor": ("attrs", 3)},
        {"sid": "list", "family": "astral", "size": 5 if q else 6, "donor": ("astral", 4 if q else 5)},
        {"sid": "fixed", "family": "fixed", "size": 10 if q else 12, "donor": ("fixed", 8 if q else 10)},
    ]
    # every (from, gapFrom, gapTo, to, slice, insert) on sequence-like content expressions: the gap lands between
    # siblings that are already in the slice
    specs.append({"sid": "struct", "family": "struct", "size": 4 if q else 5, "donor": ("struct", 5), "all_around": True,
                  "tag": "all-quadruples"})
    if q:
        specs.append(extra[seed % len(extra)])
    else:
        specs.extend(extra)
        specs.append({"sid": "list", "family": "lists", "size": 8, "donor": ("lists", 6), "all_around": True,
                      "tag": "all-quadruples"})
        specs.append({"sid": "basic", "family": "blocks", "size": 4, "donor": ("blocks", 3), "all_around": True,
                      "tag": "all-quadruples"})
    return specs


def units(tier, seed):
    out = common.doc_units(PROPERTY_ID, scope_specs(tier, seed), per_scope_blocks=8 if tier == "quick" else 16)
    # mark configurations with cross-type exclusion: node-mark / mark steps must keep mark sets canonical
    from ..universe import schemas

    fam = schemas.mark_family_specs([("A", "B", "C")])
    step = 16 if tier == "quick" else 3
    sel = fam[(seed % step)::step]
    nb = 8
    for b in range(nb):
        out.append({"kind": "fmarks", "ids": [x[0] for x in sel[b::nb]], "name": f"fmarks#{b}/{nb}"})
    # isolation pairs: two schemas with the same names / JSON / expression strings but different meaning, used one
    # after the other in one process, both creation orders
    out.extend(common.pairseq_units(PROPERTY_ID, 4 if tier == "quick" else 5, 3))
    return out


def enumerate_steps(c, sc, d, T, u, pool):
    model = c.model
    n = len(T)
    marks = gen_steps.schema_marks(model, 4)
    yield from gen_steps.replace_steps(n, pool)
    if u.get("all_around"):
        # nested, unmarked slices first: they are the ones with room (and siblings) around the insert position
        def _rank(s):
            k = jkey(s)
            return ('"marks"' in k, -k.count('"content"'))
        small = sorted((s for s in pool if tk.content_size(model, s["content"]) <= 4), key=_rank)[:30]
        yield from gen_steps.around_steps_all(n, small, model)
    yield from gen_steps.around_steps_structured(model, T, sc["types"])
    yield from gen_steps.mark_steps(n, marks)
    yield from gen_steps.node_steps(model, n, marks)


def apply_outcome(step, node):
    """('doc', Node) | ('failed', msg) | ('valueerror', exc) | ('internal', exc) | ('hang', None) | ('bad', msg)"""
    try:
        r = step.apply(node)
    except engine.Watchdog:
        raise
    except ValueError as e:
        return ("valueerror", e)
    except RecursionError as e:
        return ("internal", e)
    except Exception as e:  # noqa: BLE001
        return ("internal", e)
    if r.failed is not None and r.doc is None:
        return ("failed", r.failed)
    if r.failed is None and r.doc is not None:
        return ("doc", r.doc)
    return ("bad", f"failed={r.failed!r} doc={'set' if r.doc is not None else None}")


def check_step(c, d, node, T, sd, res):
    model = c.model
    size = len(T)
    case = {"schema": c.id, "spec": c.spec if c.id.startswith("fm") else None, "doc": d, "step": sd}
    res.transitions += 1
    try:
        step = adapters.build_step(c, sd)
    except Exception as e:  # noqa: BLE001
        res.violate("c01.harness.build", case, common.exc_str(e), size=size)
        return None
    out = apply_outcome(step, node)
    kind = out[0]
    res.outcome(sd["stepType"] + ":" + kind)
    if kind == "internal":
        res.violate("c01.internal-error", case, common.exc_str(out[1]),
                    fingerprint="c01.internal-error:" + sd["stepType"] + ":" + common.exc_fp(out[1]), size=size)
    elif kind == "bad":
        res.violate("c01.result-shape", case, out[1], size=size)
    elif kind == "doc":
        res.nontrivial += 1
        rj = out[1].to_json()
        prob = validity.node_problem(model, rj)
        res.validated += 1
        if prob:
            res.violate("c01.invalid-document", case, prob + " :: " + jkey(rj)[:300],
                        fingerprint="c01.invalid-document:" + sd["stepType"], size=size)
        try:
            out[1].check()
            chk = None
        except ValueError as e:
            chk = str(e)
        except Exception as e:  # noqa: BLE001
            chk = "internal " + common.exc_str(e)
        if (chk is None) != (prob is None):
            res.violate("c01.check-disagrees", case, chk, prob, size=size)
    # the JSON-decoded twin behaves identically
    try:
        sj = step.to_json()
        twin = adapters.Step.from_json(c.schema, json.loads(json.dumps(sj)))
    except Exception as e:  # noqa: BLE001
        res.violate("c01.json-twin.raises", case, common.exc_str(e),
                    fingerprint="c01.json-twin.raises:" + sd["stepType"] + ":" + common.exc_fp(e), size=size)
        return out
    # an untrusted peer may list marks in any order: the decoded step must behave the same
    sj2 = json.loads(json.dumps(sj))
    if _reverse_marks(sj2):
        try:
            twin2 = adapters.Step.from_json(c.schema, sj2)
            o3 = apply_outcome(twin2, node)
            res.transitions += 1
            same3 = o3[0] == kind and (kind != "doc" or jkey(o3[1].to_json()) == jkey(out[1].to_json()))
            if not same3:
                res.violate("c01.json-twin.mark-order", case,
                            [kind, o3[0], jkey(o3[1].to_json())[:200] if o3[0] == "doc" else str(o3[1])[:200]],
                            fingerprint="c01.json-twin.mark-order:" + sd["stepType"], size=size)
        except Exception as e:  # noqa: BLE001
            res.violate("c01.json-twin.raises", case, common.exc_str(e),
                        fingerprint="c01.json-twin.raises:" + sd["stepType"] + ":" + common.exc_fp(e), size=size)
    out2 = apply_outcome(twin, node)
    res.transitions += 1
    same = out2[0] == kind and (kind != "doc" or jkey(out2[1].to_json()) == jkey(out[1].to_json()))
    if not same:
        res.violate("c01.json-twin.differs", case,
                    [kind, out2[0], jkey(out2[1].to_json())[:200] if out2[0] == "doc" else str(out2[1])[:200]],
                    fingerprint="c01.json-twin.differs:" + sd["stepType"], size=size)
    return out


def _reverse_marks(j):
    """Reverse the order of the mark TYPES in every mark list inside a step's JSON (in place); marks of one type keep
    their relative order (for marks that do not exclude their own type that order is part of the value: both orders
    are canonical sets, and different ones). True if anything changed."""
    changed = False
    if isinstance(j, dict):
        for k, v in j.items():
            if k == "marks" and isinstance(v, list) and len({m.get("type") for m in v if isinstance(m, dict)}) >= 2:
                types = []
                for m in v:
                    if m.get("type") not in types:
                        types.append(m.get("type"))
                v[:] = [m for t in reversed(types) for m in v if m.get("type") == t]
                changed = True
            elif _reverse_marks(v):
                changed = True
    elif isinstance(j, list):
        for v in j:
            if _reverse_marks(v):
                changed = True
    return changed


def run_fmarks(u, res):
    from ..universe import gen_docs, schemas, scopes

    fam = dict(schemas.mark_family_specs([("A", "B", "C")]))
    marks = [{"type": "A", "attrs": {"id": 0}}, {"type": "A", "attrs": {"id": 1}}, {"type": "B", "attrs": {}},
             {"type": "C", "attrs": {}}]
    nd = 0
    for sid in u["ids"]:
        c = adapters.Ctx(sid, fam[sid])
        sc = scopes.scope(c.model, "fmarks", sid, 3)
        sc["types"] = ["doc", "paragraph", "p_all", "p_A", "text", "atom"]
        for d in gen_docs.gen_docs(c.model, sc):
            node = c.node(d)
            T = tk.doc_tokens(c.model, d)
            res.states += 1
            nd += 1
            steps = list(gen_steps.mark_steps(len(T), marks))
            for p in range(len(T) + 1):
                for m in marks:
                    steps.append({"stepType": "addNodeMark", "pos": p, "mark": m})
                    steps.append({"stepType": "removeNodeMark", "pos": p, "mark": m})
            for sd in steps:
                engine.kick()
                try:
                    out = check_step(c, d, node, T, sd, res)
                except engine.Watchdog:
                    res.violate("c01.hang", {"schema": c.id, "spec": c.spec, "doc": d, "step": sd}, "watchdog", size=len(T))
    if u["ids"]:
        res.sample({"schema": u["ids"][0], "family": "F-marks", "steps": "all mark / node-mark steps"})
    res.scopes.append({"unit": u["name"], "configurations": len(u["ids"]), "docs": nd, "completed": True})


def run_unit(u):
    if u.get("kind") == "pairseq":
        return common.run_pairseq(u, run_unit, PROPERTY_ID)
    res = engine.UnitResult(PROPERTY_ID)
    if u.get("kind") == "fmarks":
        engine.arm()
        run_fmarks(u, res)
        engine.disarm()
        res.evaluations = res.transitions
        return res
    c, sc, docs = common.unit_docs(u)
    pool = common.pool_slices(u["sid"], u["donor"][0], u["donor"][1])
    engine.arm()
    nsteps = 0
    for d in docs:
        node = common.valid_doc_conformance(c, d, res)
        T = tk.doc_tokens(c.model, d)
        res.states += 1
        for sd in enumerate_steps(c, sc, d, T, u, pool):
            engine.kick()
            try:
                check_step(c, d, node, T, sd, res)
            except engine.Watchdog:
                res.violate("c01.hang", {"schema": c.id, "doc": d, "step": sd}, "watchdog", size=len(T))
            nsteps += 1
    engine.disarm()
    if docs:
        res.sample({"schema": c.id, "doc": docs[-1],
                    "step": {"stepType": "replace", "from": 0, "to": 1, "slice": pool[min(2, len(pool) - 1)], "structure": False}})
    res.scopes.append({"unit": u["name"], "docs": len(docs), "pool_slices": len(pool), "steps": nsteps, "completed": True})
    res.evaluations = res.transitions
    return res


def replay(case):
    res = engine.UnitResult(PROPERTY_ID)
    c = adapters.Ctx(case["schema"], case["spec"]) if case.get("spec") else adapters.ctx(case["schema"])
    d = case["doc"]
    engine.arm()
    engine.kick(30)
    try:
        check_step(c, d, c.node(d), tk.doc_tokens(c.model, d), case["step"], res)
    except engine.Watchdog:
        res.violate("c01.hang", case, "watchdog")
    engine.disarm()
    return res.violations
