"""C08 — position maps and mappings obey the documented mapping algebra (explorers E1 + E2)."""

from __future__ import annotations

import itertools

from .. import adapters, engine
from ..ref import maps as rm
from . import common

PROPERTY_ID = "C08"
StepMap = adapters.StepMap
Mapping = adapters.Mapping


def describe():
    return {
        "rule": "all step maps with <= 3 ranges (gaps and sizes in {0,1,2}, both orientations) x all positions x both "
                "sides; all mappings of <= 3 maps from the <= 2-range pool incl. slices, appends, inversions and "
                "mirrored palindromes built four ways. non-trivial = (map, position, side) triples where the "
                "position lies inside a range (counted)",
        "assumptions": [
            "range count <= 3, gap/old/new sizes in {0,1,2}; mappings of <= 3 maps (palindromes <= 6)",
            "reference ref/maps.py normalises inverted maps into forward triples and applies the documented rule",
            "deleted_after at a pure insertion point is unspecified upstream and not asserted",
        ],
        "explanation": "E1 over all small maps, E2-style exhaustive construction histories for mappings",
    }


def all_maps(max_ranges, vals=(0, 1, 2)):
    """Flat ranges lists, smallest first."""
    out = [[]]
    for n in range(1, max_ranges + 1):
        for combo in itertools.product(itertools.product(vals, vals, vals), repeat=n):
            ranges = []
            pos = 0
            for gap, old, new in combo:
                start = pos + gap
                ranges.extend([start, old, new])
                pos = start + old
            out.append(ranges)
    return out


def units(tier, seed):
    q = tier == "quick"
    out = []
    nb = 16 if q else 32
    for b in range(nb):
        out.append({"kind": "maps", "max_ranges": 3, "block": b, "nblocks": nb, "name": f"maps<=3#{b}/{nb}"})

    def add(pool_r, ln, level, nb, only=None):
        for b in range(nb):
            if only is not None and b % only[1] != only[0]:
                continue
            out.append({"kind": "mappings", "pool_ranges": pool_r, "len": ln, "level": level, "block": b,
                        "nblocks": nb, "name": f"mappings/pool<={pool_r}ranges/len<={ln}/{level}#{b}/{nb}"})

    out.append({"kind": "aliasing", "depth": 3 if q else 4, "name": "aliasing(original/copy histories)"})
    if q:
        add(1, 2, "full", 8)
        add(1, 3, "pal", 32)
        # seed rotates one complete residue class of the (2-range pool, length <= 2) palindromes
        add(2, 2, "pal", 256, only=(seed % 16, 16))
    else:
        add(1, 3, "full", 128)
        add(2, 2, "pal", 256)
        add(2, 1, "full", 16)
    return out


def check_map(ranges, inverted, res):
    m = StepMap(list(ranges), inverted)
    tr = rm.normalize(ranges, inverted)
    res.states += 1
    maxpos = (tr[-1][0] + tr[-1][1] if tr else 0) + 2
    size = len(ranges)
    base = {"kind": "map", "ranges": list(ranges), "inverted": inverted}
    inv = m.invert()
    inv_tr = rm.normalize(ranges, not inverted)
    for assoc in (-1, 1):
        prev = None
        for pos in range(0, maxpos + 1):
            case = {**base, "pos": pos, "assoc": assoc}
            res.transitions += 1
            try:
                p = m.map(pos, assoc)
                r = m.map_result(pos, assoc)
            except Exception as e:  # noqa: BLE001
                res.violate("c08.map.raises", case, common.exc_str(e), fingerprint="c08.map.raises:" + common.exc_fp(e),
                            size=size)
                continue
            exp = rm.map_result(tr, pos, assoc)
            res.validated += 1
            if p != exp["pos"] or r.pos != exp["pos"]:
                res.violate("c08.map.pos", case, [p, r.pos], exp["pos"], size=size)
                continue
            if prev is not None and p < prev:
                res.violate("c08.map.monotonic", case, [prev, p], size=size)
            prev = p
            if exp["range"] is None:
                if r.deleted or r.deleted_before or r.deleted_after or r.deleted_across or r.recover is not None:
                    res.violate("c08.flags.outside", case,
                                [r.deleted, r.deleted_before, r.deleted_after, r.deleted_across, r.recover], size=size)
                continue
            res.nontrivial += 1
            if exp["old"] > 0:
                got = [r.deleted, r.deleted_before, r.deleted_after, r.deleted_across]
                want = [exp["deleted"], exp["deleted_before"], exp["deleted_after"], exp["deleted_across"]]
                if got != want:
                    res.violate("c08.flags", case, got, want, size=size)
            else:
                if r.deleted or r.deleted_before or r.deleted_across:
                    res.violate("c08.flags.insertion", case, [r.deleted, r.deleted_before, r.deleted_across], size=size)
            # recover
            if (r.recover is not None) != exp["has_recover"]:
                res.violate("c08.recover.presence", case, r.recover, exp["has_recover"], size=size)
            elif r.recover is not None:
                try:
                    back = inv.recover(r.recover)
                except Exception as e:  # noqa: BLE001
                    res.violate("c08.recover.raises", case, common.exc_str(e), size=size)
                    continue
                if back != pos:
                    res.violate("c08.recover", case, back, pos, size=size)
                # touches: pos lies in the range the recover value indexes, and in no other claimed index
                for idx in range(len(tr)):
                    fake = idx + (exp["offset"] << 16)
                    try:
                        t = m.touches(pos, fake)
                    except Exception as e:  # noqa: BLE001
                        res.violate("c08.touches.raises", case, common.exc_str(e),
                                    fingerprint="c08.touches.raises:" + common.exc_fp(e), size=size)
                        break
                    if t != rm.touches(tr, pos, idx):
                        res.violate("c08.touches", {**case, "index": idx}, t, rm.touches(tr, pos, idx), size=size)
                        break
    # touches on positions outside all ranges / empty map must be False, not an error
    for pos in range(0, maxpos + 1):
        for idx in range(max(1, len(tr))):
            try:
                t = m.touches(pos, idx)
            except Exception as e:  # noqa: BLE001
                res.violate("c08.touches.raises", {**base, "pos": pos, "index": idx}, common.exc_str(e),
                            fingerprint="c08.touches.raises:" + common.exc_fp(e), size=size)
                break
            res.transitions += 1
            if t != (rm.touches(tr, pos, idx) if idx < len(tr) else False):
                res.violate("c08.touches", {**base, "pos": pos, "index": idx}, t, size=size)
                break
    # for_each
    got = []
    try:
        m.for_each(lambda a, b, c, d: got.append((a, b, c, d)))
    except Exception as e:  # noqa: BLE001
        res.violate("c08.for_each.raises", base, common.exc_str(e), size=size)
        got = None
    if got is not None:
        res.validated += 1
        want = rm.for_each(tr)
        if got != want:
            res.violate("c08.for_each", base, got, want, size=size)
        else:
            for k, (os_, oe, ns, ne) in enumerate(got):
                # ranges that touch a neighbour are decided by the first-range scan rule: only isolated ones
                if (k and got[k - 1][1] >= os_) or (k + 1 < len(got) and got[k + 1][0] <= oe):
                    continue
                if m.map(os_, -1) != ns or m.map(oe, 1) != ne:
                    res.violate("c08.for_each.consistent", base, [os_, oe, ns, ne], size=size)
    # double inversion is the identity
    dd = inv.invert()
    for pos in range(0, maxpos + 1):
        for assoc in (-1, 1):
            if dd.map(pos, assoc) != m.map(pos, assoc):
                res.violate("c08.invert.involution", {**base, "pos": pos, "assoc": assoc}, dd.map(pos, assoc), size=size)
    # inverse maps back every position that survives
    for pos in range(0, maxpos + 1):
        e = rm.map_result(tr, pos, 1)
        if e["range"] is None:
            if inv.map(m.map(pos, 1), 1) != pos and inv.map(m.map(pos, -1), -1) != pos:
                res.violate("c08.invert.roundtrip", {**base, "pos": pos}, inv.map(m.map(pos, 1), 1), pos, size=size)
    _ = inv_tr


class _SkipFull(Exception):
    pass


def ref_mapping(maps, pairs, frm=0, to=None):
    return {"maps": [list(m) for m in maps], "pairs": sorted(tuple(sorted(p)) for p in pairs), "from": frm,
            "to": len(maps) if to is None else to}


def live_state(mp):
    pairs = []
    if mp.mirror:
        for i in range(0, len(mp.mirror), 2):
            pairs.append(tuple(sorted((mp.mirror[i], mp.mirror[i + 1]))))
    return {"maps": [[list(m.ranges), m.inverted] for m in mp.maps], "pairs": sorted(pairs), "from": mp.from_,
            "to": mp.to}


def mk_map(desc):
    return StepMap(list(desc[0]), desc[1])


def compare_mapping(mp, descs, pairs, frm, to, res, case, size, positions):
    """mp (live Mapping) must behave like the reference pipeline over descs[frm:to] with mirror pairs."""
    st = live_state(mp)
    want_maps = [[list(d[0]), d[1]] for d in descs]
    if st["maps"] != want_maps or st["from"] != frm or st["to"] != to:
        res.violate("c08.mapping.structure", case, st, {"maps": want_maps, "from": frm, "to": to}, size=size)
        return False
    if st["pairs"] != sorted(tuple(sorted(p)) for p in pairs):
        res.violate("c08.mapping.mirror", case, st["pairs"], sorted(tuple(sorted(p)) for p in pairs), size=size)
        return False
    trs = [rm.normalize(d[0], d[1]) for d in descs]
    for pos in positions:
        for assoc in (-1, 1):
            res.transitions += 1
            try:
                got = mp.map(pos, assoc)
                got_r = mp.map_result(pos, assoc).pos
            except Exception as e:  # noqa: BLE001
                res.violate("c08.mapping.raises", {**case, "pos": pos, "assoc": assoc}, common.exc_str(e),
                            fingerprint="c08.mapping.raises:" + common.exc_fp(e), size=size)
                return False
            want = rm.map_with_mirrors(trs, pairs, pos, assoc, frm, to)
            res.validated += 1
            if got != want or got_r != want:
                res.violate("c08.mapping.map", {**case, "pos": pos, "assoc": assoc}, [got, got_r], want, size=size)
                return False
    return True


def check_mapping_seq(descs, res, level="full"):
    """descs: list of (ranges, inverted). Exercises composition helpers on this sequence.
    level 'pal': only inversion and the mirrored-palindrome constructions."""
    n = len(descs)
    size = sum(len(d[0]) for d in descs) + n
    positions = range(0, 9)
    base = {"kind": "mapping", "maps": [[list(d[0]), d[1]] for d in descs]}
    res.states += 1
    try:
        # plain pipeline, built three ways
        m1 = Mapping([mk_map(d) for d in descs])
        compare_mapping(m1, descs, [], 0, n, res, {**base, "how": "ctor"}, size, positions)
        if level == "pal":
            raise _SkipFull()
        m2 = Mapping()
        for d in descs:
            m2.append_map(mk_map(d))
        compare_mapping(m2, descs, [], 0, n, res, {**base, "how": "append_map"}, size, positions)
        for k in range(n + 1):
            m3 = Mapping([mk_map(d) for d in descs[:k]])
            m3.append_mapping(Mapping([mk_map(d) for d in descs[k:]]))
            compare_mapping(m3, descs, [], 0, n, res, {**base, "how": f"append_mapping@{k}"}, size, positions)
        # slices
        for a in range(n + 1):
            for b in range(a, n + 1):
                s = m1.slice(a, b)
                compare_mapping(s, descs, [], a, b, res, {**base, "how": f"slice({a},{b})"}, size, positions)
        s = m1.slice(1) if n else m1.slice()
        compare_mapping(s, descs, [], min(1, n), n, res, {**base, "how": "slice(1)"}, size, positions)
        cp = m1.copy()
        compare_mapping(cp, descs, [], 0, n, res, {**base, "how": "copy"}, size, positions)
    except _SkipFull:
        pass
    except Exception as e:  # noqa: BLE001
        res.violate("c08.mapping.raises", base, common.exc_str(e), fingerprint="c08.mapping.raises:" + common.exc_fp(e),
                    size=size)
        return
    try:
        # inversion
        inv_descs = [(d[0], not d[1]) for d in reversed(descs)]
        mi = m1.invert()
        compare_mapping(mi, inv_descs, [], 0, n, res, {**base, "how": "invert"}, size, positions)
        # mirrored palindrome, four ways
        pal = list(descs) + inv_descs
        pairs = [(i, 2 * n - 1 - i) for i in range(n)]
        flat = []
        for a, b in pairs:
            flat.extend([a, b])
        ways = {}
        ways["ctor"] = Mapping([mk_map(d) for d in pal], flat or None)
        w = Mapping()
        for i, d in enumerate(pal):
            w.append_map(mk_map(d), (2 * n - 1 - i) if i >= n else None)
        ways["append_map+mirrors"] = w
        w = Mapping([mk_map(d) for d in descs])
        w.append_mapping_inverted(Mapping([mk_map(d) for d in descs]))
        # append_mapping_inverted registers no mirrors by itself (the argument had none): structure only
        compare_mapping(w, pal, [], 0, 2 * n, res, {**base, "how": "append_mapping_inverted"}, size, positions)
        src = Mapping([mk_map(d) for d in pal], list(flat) or None)
        w = Mapping()
        w.append_mapping(src)
        ways["append_mapping(mirrored)"] = w
        # inverting a mirrored palindrome gives a mirrored palindrome of the inverses
        w = src.invert()
        inv_pal = [(d[0], not d[1]) for d in reversed(pal)]
        compare_mapping(w, inv_pal, pairs, 0, 2 * n, res, {**base, "how": "invert(mirrored)"}, size, positions)
        # prefixing an unrelated map shifts the mirror indices
        if n:
            w = Mapping([mk_map(descs[0])])
            w.append_mapping(src)
            compare_mapping(w, [descs[0], *pal], [(a + 1, b + 1) for a, b in pairs], 0, 2 * n + 1, res,
                            {**base, "how": "prefix+append_mapping(mirrored)"}, size, positions)
            w = Mapping([mk_map(descs[0])])
            w.append_mapping_inverted(src)
            compare_mapping(w, [descs[0], *inv_pal], [(a + 1, b + 1) for a, b in pairs], 0, 2 * n + 1, res,
                            {**base, "how": "prefix+append_mapping_inverted(mirrored)"}, size, positions)
        for how, mp in ways.items():
            case = {**base, "how": "palindrome/" + how}
            if not compare_mapping(mp, pal, pairs, 0, 2 * n, res, case, size, positions):
                continue
            # windows of a mirrored mapping: a mirror partner outside the window must not be jumped to
            if how == "ctor" and (n == 1 or (n == 2 and level == "full")):
                ok = True
                for a in range(2 * n + 1):
                    for b in range(a, 2 * n + 1):
                        if (a, b) == (0, 2 * n):
                            continue
                        if not compare_mapping(mp.slice(a, b), pal, [p for p in pairs], a, b, res,
                                               {**case, "how": f"palindrome/slice({a},{b})"}, size, positions):
                            ok = False
                            break
                    if not ok:
                        break
            # the law itself: forward and back returns every position, also inside deleted content
            for pos in positions:
                for assoc in (-1, 1):
                    got = mp.map(pos, assoc)
                    res.nontrivial += 1
                    if got != pos:
                        res.violate("c08.mirror.roundtrip", {**case, "pos": pos, "assoc": assoc}, got, pos, size=size)
    except Exception as e:  # noqa: BLE001
        res.violate("c08.mapping.raises", base, common.exc_str(e), fingerprint="c08.mapping.raises:" + common.exc_fp(e),
                    size=size)


def check_aliasing(res, depth):
    """Histories over TWO mappings, an original and a copy taken from it (plus a slice): appends / mirror
    registrations on one must never show up in the other.  Every history of `depth` actions is run on fresh
    objects and both mappings are compared with independently tracked reference states after every action."""
    pool = [([0, 1, 0], False), ([1, 0, 2], False), ([0, 2, 1], True)]
    src_descs = [pool[0], (pool[0][0], True)]
    src_pairs = [(0, 1)]
    actions = []
    for who in ("M", "K"):
        for k in range(len(pool)):
            actions.append((who, "append_map", k))
        actions.append((who, "append_map+mirror", 1))
        actions.append((who, "append_mapping", None))
        actions.append((who, "append_mapping_inverted", None))
    actions.append(("M", "copy->K", None))
    positions = range(0, 7)
    n = 0
    for start in ("plain", "mirrored"):
        for seq in itertools.product(range(len(actions)), repeat=depth):
            if start == "plain":
                M = Mapping([mk_map(pool[0])])
                refM = {"descs": [pool[0]], "pairs": []}
            else:
                M = Mapping([mk_map(pool[0]), mk_map((pool[0][0], True))], [0, 1])
                refM = {"descs": [pool[0], (pool[0][0], True)], "pairs": [(0, 1)]}
            K = M.copy()
            refK = {"descs": list(refM["descs"]), "pairs": list(refM["pairs"])}
            hist = []
            ok = True
            for idx in seq:
                who, act, arg = actions[idx]
                hist.append([who, act, arg])
                live, ref = (M, refM) if who == "M" else (K, refK)
                res.transitions += 1
                try:
                    if act == "append_map":
                        live.append_map(mk_map(pool[arg]))
                        ref["descs"].append(pool[arg])
                    elif act == "append_map+mirror":
                        live.append_map(mk_map((pool[0][0], True)), len(ref["descs"]) - 1)
                        ref["pairs"].append((len(ref["descs"]) - 1, len(ref["descs"])))
                        ref["descs"].append((pool[0][0], True))
                    elif act == "append_mapping":
                        base_n = len(ref["descs"])
                        live.append_mapping(Mapping([mk_map(d) for d in src_descs], [0, 1]))
                        ref["descs"].extend(src_descs)
                        ref["pairs"].extend((a + base_n, b + base_n) for a, b in src_pairs)
                    elif act == "append_mapping_inverted":
                        base_n = len(ref["descs"])
                        live.append_mapping_inverted(Mapping([mk_map(d) for d in src_descs], [0, 1]))
                        inv = [(d[0], not d[1]) for d in reversed(src_descs)]
                        ref["descs"].extend(inv)
                        ref["pairs"].extend((base_n + len(src_descs) - 1 - a, base_n + len(src_descs) - 1 - b)
                                            for a, b in src_pairs)
                    else:
                        K = M.copy()
                        refK = {"descs": list(refM["descs"]), "pairs": list(refM["pairs"])}
                except Exception as e:  # noqa: BLE001
                    res.violate("c08.aliasing.raises", {"kind": "aliasing", "start": start, "history": hist},
                                common.exc_str(e), fingerprint="c08.aliasing.raises:" + common.exc_fp(e), size=len(hist))
                    ok = False
                    break
                for name, lv, rf in (("M", M, refM), ("K", K, refK)):
                    if not compare_mapping(lv, rf["descs"], rf["pairs"], 0, len(rf["descs"]), res,
                                           {"kind": "aliasing", "start": start, "history": hist, "object": name},
                                           len(hist), positions):
                        ok = False
                        break
                if not ok:
                    break
            n += 1
            res.states += 1
    # appending to a WINDOW (a slice, or explicit from_/to bounds): afterwards the mapping ends with the appended map
    # (to == len(maps), as upstream's `this.to = this.maps.push(map)`) and still equals the composition of its maps
    for nmaps in (1, 2, 3):
        for combo in itertools.product(range(len(pool)), repeat=nmaps):
            for frm in range(nmaps + 1):
                for to in range(frm, nmaps + 1):
                    for how in ("slice", "ctor"):
                        for extra in itertools.product(range(len(pool)), repeat=2):
                            base = Mapping([mk_map(pool[k]) for k in combo])
                            W = base.slice(frm, to) if how == "slice" else Mapping([mk_map(pool[k]) for k in combo], None, frm, to)
                            hist = [["window", how, [list(combo), frm, to]]]
                            for k in extra:
                                W.append_map(mk_map(pool[k]))
                                hist.append(["W", "append_map", k])
                                res.transitions += 1
                                case = {"kind": "aliasing", "start": "window", "history": list(hist)}
                                if W.to != len(W.maps) or W.maps[-1].ranges != mk_map(pool[k]).ranges:
                                    res.violate("c08.window.append", case, [W.from_, W.to, len(W.maps)], "to == len(maps)",
                                                size=len(hist))
                                    break
                                bad = None
                                for pos in positions:
                                    for assoc in (-1, 1):
                                        want = pos
                                        for mm in W.maps[W.from_:W.to]:
                                            want = mm.map(want, assoc)
                                        if W.map(pos, assoc) != want or W.map_result(pos, assoc).pos != want:
                                            bad = (pos, assoc, W.map(pos, assoc), want)
                                if bad:
                                    res.violate("c08.window.append", case, list(bad), "composition of maps[from_:to]", size=len(hist))
                                    break
                            n += 1
    res.sample({"kind": "aliasing", "histories": n, "depth": depth})
    return n


def run_unit(u):
    res = engine.UnitResult(PROPERTY_ID)
    n = 0
    if u["kind"] == "aliasing":
        n = check_aliasing(res, u["depth"])
        res.scopes.append({"unit": u["name"], "histories": n, "completed": True})
        res.evaluations = res.transitions
        return res
    if u["kind"] == "maps":
        ms = all_maps(u["max_ranges"])
        for i in range(u["block"], len(ms), u["nblocks"]):
            for inverted in (False, True):
                check_map(ms[i], inverted, res)
                n += 1
        res.sample({"kind": "map", "ranges": ms[min(len(ms) - 1, 40 + u["block"])], "inverted": True})
        res.scopes.append({"unit": u["name"], "maps": n, "completed": True})
    else:
        pool = [(r, inv) for r in all_maps(u["pool_ranges"]) for inv in (False, True)]
        idx = 0
        for ln in range(0, u["len"] + 1):
            for combo in itertools.product(pool, repeat=ln):
                if idx % u["nblocks"] == u["block"]:
                    check_mapping_seq(list(combo), res, u.get("level", "full"))
                    n += 1
                    if n == 5:
                        res.sample({"kind": "mapping", "maps": [[list(d[0]), d[1]] for d in combo]})
                idx += 1
        res.scopes.append({"unit": u["name"], "mappings": n, "completed": True})
    res.evaluations = res.transitions
    return res


def replay(case):
    res = engine.UnitResult(PROPERTY_ID)
    if case["kind"] == "aliasing":
        check_aliasing(res, len(case["history"]))
        return res.violations
    if case["kind"] == "map":
        check_map(case["ranges"], case["inverted"], res)
    else:
        check_mapping_seq([(m[0], m[1]) for m in case["maps"]], res, "full")
    return res.violations
