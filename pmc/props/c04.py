"""C04 — every recorded change can be undone exactly and replayed exactly (explorer E2)."""

from __future__ import annotations

from .. import adapters, engine, ops
from ..ref import positions as rp
from ..ref import tokens as tk
from ..universe import gen_docs, gen_steps, schemas, scopes
from ..ref import slices as rsl
from . import c01, common

PROPERTY_ID = "C04"
jkey = tk.jkey
Transform = adapters.Transform


def describe():
    return {
        "rule": "state graph: scope documents as roots, every menu operation as a transition (fresh Transform), "
                "successors explored to depth 2 (thorough 3, reduced pools beyond depth 1); on every transition: "
                "bookkeeping alignment (also after rejected operations), replay, undo, inverse maps; two-operation "
                "histories through ONE Transform incl. interleaved rejected operations; single replace / attr / "
                "doc-attr / node-mark steps under every zoo schema, the F-gen family and F-marks configurations. "
                "non-trivial = transitions that recorded at least one step (counted)",
        "assumptions": [
            "bounded scopes and pools; document size capped at scope size + 4 for successors",
            "set_node_attribute is only issued with attributes the addressed node declares",
            "hand-made ReplaceAroundSteps are covered as emitted by the transform API (history clause), not singly",
        ],
        "explanation": "E2 explicit-state BFS over documents with per-transition undo/replay oracles",
    }


def units(tier, seed):
    q = tier == "quick"
    specs = [
        {"sid": "basic", "family": "blocks", "size": 5 if q else 6, "donor": ("blocks", 4), "max_slices": 30 if q else 40},
        {"sid": "list", "family": "lists", "size": 10 if q else 11, "donor": ("lists", 8), "max_slices": 24 if q else 40},
        {"sid": "basic", "family": "inline_s", "size": 4 if q else 5, "donor": ("inline_s", 3), "max_slices": 30 if q else 40},
        {"sid": "iso", "family": "iso", "size": 7 if q else 8, "donor": ("iso", 6), "max_slices": 25 if q else 40},
        {"sid": "topmarks", "family": "topmarks", "size": 4 if q else 5, "donor": ("topmarks", 3), "max_slices": 20 if q else 30},
        {"sid": "basic", "family": "links", "size": 4 if q else 5, "donor": ("links", 3), "max_slices": 10 if q else 20},
    ]
    extra = [
        {"sid": "table", "family": "table", "size": 12, "donor": ("table", 10), "max_slices": 25 if q else 40, "blocks": 48},
        {"sid": "struct", "family": "struct", "size": 6 if q else 7, "donor": ("struct", 5), "max_slices": 25 if q else 40},
        {"sid": "strict_hb", "family": "strict", "size": 9 if q else 10, "donor": ("strict", 8), "max_slices": 25 if q else 40},
        {"sid": "list", "family": "lists_q", "size": 9 if q else 10, "donor": ("lists_q", 7), "max_slices": 25 if q else 40},
        {"sid": "title", "family": "title", "size": 8 if q else 9, "donor": ("title", 7), "max_slices": 25 if q else 40},
        {"sid": "list", "family": "astral", "size": 5 if q else 6, "donor": ("astral", 4), "max_slices": 25 if q else 40},
    ]
    for sp in specs + extra:
        sp["offset"] = seed
        sp["depth"] = 2  # (histories of three operations proved too expensive even for the thorough tier)
        sp["hist_size"] = {"blocks": 2, "lists": 4, "inline_s": 2, "iso": 4, "topmarks": 2, "table": 7, "struct": 3,
                           "strict": 7, "lists_q": 5, "title": 4, "astral": 3, "links": 2}[sp["family"]] + (0 if q else 1)
    if q:
        specs.append(extra[seed % len(extra)])
    else:
        specs.extend(extra)
    out = common.doc_units(PROPERTY_ID, specs, per_scope_blocks=16 if q else 32)
    for u in out:
        u["kind"] = "graph"
    # single steps under every schema
    for sid, fam, size in [("basic", "blocks", 5), ("list", "lists", 10), ("struct", "struct", 6), ("table", "table", 12),
                           ("attrs", "attrs", 3), ("topmarks", "topmarks", 4), ("strict_hb", "strict", 9),
                           ("fixed", "fixed", 10), ("title", "title", 8), ("iso", "iso", 7), ("list", "astral", 5)]:
        nb = 4
        for b in range(nb):
            out.append({"kind": "steps", "sid": sid, "family": fam, "size": size if q else size + 1, "block": b,
                        "nblocks": nb, "donor": (fam, size - 1), "name": f"steps/{sid}/{fam}#{b}/{nb}"})
    ids = schemas.fgen_ids()
    step = 32 if q else 6
    sel = ids[(seed % step)::step]
    for b in range(8):
        out.append({"kind": "fgen-steps", "ids": sel[b::8], "size": 5, "name": f"steps/fgen#{b}/8"})
    fam = schemas.mark_family_specs([("A", "B", "C")])
    stepm = 8 if q else 2
    selm = fam[(seed % stepm)::stepm]
    for b in range(8):
        out.append({"kind": "fmarks-steps", "ids": [x[0] for x in selm[b::8]], "name": f"steps/fmarks#{b}/8"})
    return out


def same_maps(m1, m2, size):
    for p in range(size + 2):
        for a in (-1, 1):
            if m1.map(p, a) != m2.map(p, a):
                return (p, a, m1.map(p, a), m2.map(p, a))
    return None


def check_history(c, start_json, tr, res, case, size):
    """Clauses (a)-(d) on a Transform whose starting document is start_json."""
    n = len(tr.steps)
    if not (len(tr.docs) == n == len(tr.mapping.maps)):
        res.violate("c04.alignment", case, [len(tr.docs), n, len(tr.mapping.maps)], size=size)
        return False
    if jkey(tr.before.to_json()) != jkey(start_json):
        res.violate("c04.before", case, jkey(tr.before.to_json())[:200], size=size)
        return False
    if n == 0:
        if jkey(tr.doc.to_json()) != jkey(start_json):
            res.violate("c04.doc-changed-without-step", case, jkey(tr.doc.to_json())[:200], size=size)
            return False
        return True
    docs = [*tr.docs, tr.doc]
    js = [jkey(x.to_json()) for x in docs]
    # (b) replay
    for i, st in enumerate(tr.steps):
        res.transitions += 1
        out = c01.apply_outcome(st, docs[i])
        if out[0] != "doc" or jkey(out[1].to_json()) != js[i + 1]:
            res.violate("c04.replay", {**case, "step_index": i, "step": adapters.step_desc(st)},
                        out[0] if out[0] != "doc" else jkey(out[1].to_json())[:300], js[i + 1][:300],
                        fingerprint="c04.replay:" + type(st).__name__, size=size)
            return False
    # (c) undo, (d) inverse maps
    cur = docs[-1]
    for i in range(n - 1, -1, -1):
        st = tr.steps[i]
        res.transitions += 1
        sd = adapters.step_desc(st)
        try:
            inv = st.invert(docs[i])
        except Exception as e:  # noqa: BLE001
            res.violate("c04.invert.raises", {**case, "step_index": i, "step": sd}, common.exc_str(e),
                        fingerprint="c04.invert.raises:" + type(st).__name__ + ":" + common.exc_fp(e), size=size)
            return False
        out = c01.apply_outcome(inv, cur)
        res.validated += 1
        if out[0] != "doc" or jkey(out[1].to_json()) != js[i]:
            res.violate("c04.undo", {**case, "step_index": i, "step": sd, "inverse": adapters.step_desc(inv)},
                        (out[0] + ": " + str(out[1])[:200]) if out[0] != "doc" else jkey(out[1].to_json())[:300], js[i][:300],
                        fingerprint="c04.undo:" + type(st).__name__, size=size)
            return False
        diff = same_maps(inv.get_map(), st.get_map().invert(), docs[i + 1].content.size)
        if diff:
            res.violate("c04.inverse-map", {**case, "step_index": i, "step": sd}, list(diff),
                        fingerprint="c04.inverse-map:" + type(st).__name__, size=size)
            return False
        cur = out[1]
    return True


def attr_declared(model, d, op):
    """Domain of the history clause: set_node_attribute names an attribute the addressed node declares;
    set_node_markup does not turn a leaf into a container or back (that builds an invalid node)."""
    if op["op"] == "set_node_markup" and op.get("type"):
        ref = rp.RefDoc(model, d)
        n = ref.node_at(ref.root, op["pos"])
        return n is None or (not n.is_text and n.is_leaf == model.types[op["type"]].is_leaf)
    if op["op"] != "set_node_attribute":
        return True
    ref = rp.RefDoc(model, d)
    n = ref.node_at(ref.root, op["pos"])
    return n is not None and op["attr"] in n.tm.attrs


def explore(c, sc, roots, pools, pools2, u, res):
    """Depth 1: every menu operation on every root (fresh Transform each).  Depth 2 (3): for roots up to
    u['hist_size'] tokens every history op1;op2(;op3) with op2.. from the reduced menu runs through ONE Transform
    (rejected operations included); the visited set de-duplicates intermediate documents."""
    model = c.model
    nstates = 0
    cap = u["size"] + 4
    for d in roots:
        nstates += 1
        node = c.node(d)
        size = common.doc_size(model, d)
        succ = {}
        small = size <= u["hist_size"]
        for op in ops.enumerate_ops(model, size, pools):
            if not attr_declared(model, d, op):
                continue
            engine.kick(10)
            try:
                status, tr, exc = ops.run_op(c, node, op)
            except engine.Watchdog:
                res.violate("c04.hang", {"schema": c.id, "doc": d, "history": [op]}, "watchdog", size=size)
                continue
            res.transitions += 1
            res.outcome(f"d1:{op['op']}:{status}")
            if status == "n/a":
                continue
            if tr.steps:
                res.nontrivial += 1
            ok = check_history(c, d, tr, res, {"schema": c.id, "doc": d, "history": [op]}, size)
            if ok and status == "ok" and small:
                nj = tr.doc.to_json()
                nk = jkey(nj)
                if nk not in succ and common.doc_size(model, nj) <= min(cap, u["hist_size"] + 3):
                    succ[nk] = (nj, [op], list(tr.steps))
        if not small:
            continue
        level = succ
        for depth in range(2, u["depth"] + 1):
            nxt = {}
            for nk, (nj, hist, steps) in level.items():
                nstates += 1
                size2 = common.doc_size(model, nj)
                for op2 in ops.enumerate_ops(model, size2, pools2):
                    if not attr_declared(model, nj, op2):
                        continue
                    engine.kick(10)
                    tr = Transform(node)
                    status = "ok"
                    try:
                        for st in steps:
                            tr.step(st)
                        before_steps = len(tr.steps)
                        try:
                            ops.apply_op(c, tr, op2)
                        except ops.NotEnabled:
                            continue
                        except ValueError:
                            status = "rejected"
                        except Exception:  # noqa: BLE001
                            status = "internal"
                    except engine.Watchdog:
                        res.violate("c04.hang", {"schema": c.id, "doc": d, "history": [*hist, op2]}, "watchdog", size=size)
                        continue
                    res.transitions += 1
                    res.outcome(f"d{depth}:history:{status}")
                    case = {"schema": c.id, "doc": d, "history": [*hist, op2]}
                    if len(tr.steps) > before_steps:
                        res.nontrivial += 1
                    ok = check_history(c, d, tr, res, case, size + size2)
                    if status == "rejected" and len(tr.steps) < before_steps:
                        res.violate("c04.rejected-op-removed-steps", case, len(tr.steps), before_steps, size=size)
                    if ok and status == "ok" and depth < u["depth"] and len(tr.steps) > before_steps and size <= u["hist_size"] - 2:
                        mj = tr.doc.to_json()
                        mk_ = jkey(mj)
                        if mk_ not in nxt and mk_ not in level and common.doc_size(model, mj) <= cap:
                            nxt[mk_] = (mj, [*hist, op2], list(tr.steps))
            level = nxt
            if not level:
                break
    return nstates


def check_single_steps(c, sc, docs, pool, res, marks):
    model = c.model
    top_attrs = list(model.types[model.top].attrs)
    work = [(d, False) for d in docs]
    # the same documents with a falsy-but-meaningful value in each document attribute (old values 0, "", False, []
    # must come back on undo just like any other): document-attribute steps only
    for d in docs[:: max(1, len(docs) // 4)][:4]:
        for a in top_attrs:
            for fv in (0, "", False, []):
                work.append(({**d, "attrs": {**(d.get("attrs") or {}), a: fv}}, True))
    for d, doc_attr_only in work:
        node = c.node(d)
        T = tk.doc_tokens(model, d)
        n = len(T)
        res.states += 1
        steps = [] if doc_attr_only else list(gen_steps.replace_steps(n, pool, structure=(False, True)))
        ref = rp.RefDoc(model, d)
        for p in range(0 if doc_attr_only else n + 1):
            tgt = ref.node_at(ref.root, p)
            if tgt is not None and not tgt.is_text:
                for a in tgt.tm.attrs:
                    for v in gen_steps.ATTR_VALUES:
                        steps.append({"stepType": "attr", "pos": p, "attr": a, "value": v})
            for m in marks:
                steps.append({"stepType": "addNodeMark", "pos": p, "mark": m})
                steps.append({"stepType": "removeNodeMark", "pos": p, "mark": m})
        for a in model.types[model.top].attrs:
            for v in gen_steps.ATTR_VALUES[:3]:
                steps.append({"stepType": "docAttr", "attr": a, "value": v})
        for sd in steps:
            engine.kick(10)
            res.transitions += 1
            case = {"schema": c.id, "spec": c.spec if c.id.startswith(("fg", "fm")) else None, "doc": d, "step": sd}
            try:
                st = adapters.build_step(c, sd)
                out = c01.apply_outcome(st, node)
                if out[0] != "doc":
                    continue
                res.nontrivial += 1
                try:
                    inv = st.invert(node)
                except Exception as e:  # noqa: BLE001
                    res.violate("c04.single.invert.raises", case, common.exc_str(e),
                                fingerprint="c04.single.invert.raises:" + sd["stepType"] + ":" + common.exc_fp(e), size=n)
                    continue
                back = c01.apply_outcome(inv, out[1])
                res.validated += 1
                if back[0] != "doc" or jkey(back[1].to_json()) != jkey(d):
                    res.violate("c04.single.undo", {**case, "inverse": adapters.step_desc(inv)},
                                back[0] if back[0] != "doc" else jkey(back[1].to_json())[:300], jkey(d)[:300],
                                fingerprint="c04.single.undo:" + sd["stepType"], size=n)
                    continue
                diff = same_maps(inv.get_map(), st.get_map().invert(), out[1].content.size)
                if diff:
                    res.violate("c04.single.inverse-map", case, list(diff),
                                fingerprint="c04.single.inverse-map:" + sd["stepType"], size=n)
            except engine.Watchdog:
                res.violate("c04.hang", case, "watchdog", size=n)


def run_unit(u):
    res = engine.UnitResult(PROPERTY_ID)
    engine.arm()
    if u["kind"] == "graph":
        c, sc, docs = common.unit_docs(u)
        pool = common.pool_slices(u["sid"], u["donor"][0], u["donor"][1])
        pools = ops.default_pools(c, sc, pool, u.get("max_slices"), offset=u.get("offset", 0))
        q = u["depth"] <= 2
        pools2 = ops.default_pools(c, sc, pool, 4 if q else 8, max_nodes=2 if q else 3, offset=u.get("offset", 0))
        pools2["marks"] = pools2["marks"][:1 if q else 2]
        pools2["types"] = pools2["types"][:3 if q else 5]
        pools2["textblocks"] = pools2["textblocks"][:2]
        pools2["markup"] = pools2["markup"][:2]
        pools2["attrs"] = pools2["attrs"][:1]
        n = explore(c, sc, docs, pools, pools2, u, res)
        res.states += n
        if docs:
            res.sample({"schema": c.id, "doc": docs[-1], "history": [{"op": "split", "pos": 1, "depth": 1},
                                                                     {"op": "add_mark", "from": 0, "to": 2, "mark": pools["marks"][0] if pools["marks"] else None}]})
        res.scopes.append({"unit": u["name"], "roots": len(docs), "states": n, "depth": u["depth"], "completed": True})
    elif u["kind"] == "steps":
        c, sc, docs = common.unit_docs(u)
        pool = common.pool_slices(u["sid"], u["donor"][0], u["donor"][1])
        check_single_steps(c, sc, docs, pool[:150], res, gen_steps.schema_marks(c.model, 4))
        if docs:
            res.sample({"schema": c.id, "doc": docs[-1], "step": {"stepType": "replace", "from": 0, "to": 1}})
        res.scopes.append({"unit": u["name"], "docs": len(docs), "completed": True})
    elif u["kind"] == "fgen-steps":
        nd = 0
        for sid, (i, j, k, v) in u["ids"]:
            c = adapters.Ctx(sid, schemas.fgen_spec(i, j, k, v))
            sc = scopes.scope(c.model, "fgen", sid, u["size"])
            docs = gen_docs.gen_docs(c.model, sc)
            donor = gen_docs.gen_docs(c.model, scopes.scope(c.model, "fgen", sid, u["size"] - 1))
            sl = [{"content": [], "openStart": 0, "openEnd": 0}, *rsl.all_slices(c.model, donor)]
            check_single_steps(c, sc, docs, sl[:60], res, gen_steps.schema_marks(c.model, 2))
            nd += len(docs)
        if u["ids"]:
            res.sample({"schema": u["ids"][0][0], "family": "F-gen single steps"})
        res.scopes.append({"unit": u["name"], "schemas": len(u["ids"]), "docs": nd, "completed": True})
    else:
        fam = dict(schemas.mark_family_specs([("A", "B", "C")]))
        nd = 0
        for sid in u["ids"]:
            c = adapters.Ctx(sid, fam[sid])
            sc = scopes.scope(c.model, "fmarks", sid, 3)
            sc["types"] = ["doc", "paragraph", "p_all", "text", "atom"]
            docs = gen_docs.gen_docs(c.model, sc)
            marks = [{"type": "A", "attrs": {"id": 0}}, {"type": "A", "attrs": {"id": 1}}, {"type": "B", "attrs": {}},
                     {"type": "C", "attrs": {}}]
            check_single_steps(c, sc, docs, [{"content": [], "openStart": 0, "openEnd": 0}], res, marks)
            nd += len(docs)
        if u["ids"]:
            res.sample({"schema": u["ids"][0], "family": "F-marks node-mark steps"})
        res.scopes.append({"unit": u["name"], "configurations": len(u["ids"]), "docs": nd, "completed": True})
    engine.disarm()
    res.evaluations = res.transitions
    return res


def replay(case):
    res = engine.UnitResult(PROPERTY_ID)
    c = adapters.Ctx(case["schema"], case["spec"]) if case.get("spec") else adapters.ctx(case["schema"])
    d = case["doc"]
    node = c.node(d)
    engine.arm()
    engine.kick(60)
    try:
        if "history" in case:
            tr = Transform(node)
            for op in case["history"]:
                try:
                    ops.apply_op(c, tr, op)
                except (ValueError, ops.NotEnabled):
                    pass
                except Exception:  # noqa: BLE001
                    pass
            check_history(c, d, tr, res, case, 0)
        else:
            sc = {"types": list(c.model.type_names)}
            check_single_steps(c, sc, [d], [case["step"].get("slice") or {"content": [], "openStart": 0, "openEnd": 0}],
                               res, [case["step"]["mark"]] if case["step"].get("mark") else [])
    except engine.Watchdog:
        res.violate("c04.hang", case, "watchdog")
    engine.disarm()
    return res.violations
