"""Exhaustive enumeration of content-expression syntax trees by node count."""

from __future__ import annotations

from functools import lru_cache

UNARY_ALL = [("opt",), ("star",), ("plus",), ("range", 0, 0), ("range", 1, 1), ("range", 2, 2),
             ("range", 0, 2), ("range", 1, 2), ("range", 0, -1), ("range", 1, -1), ("range", 2, -1)]
UNARY_BASIC = [("opt",), ("star",), ("plus",)]


def trees(atoms: tuple, k: int, unary=tuple(UNARY_ALL)):
    """All ASTs with exactly k syntax nodes (atom=1, unary=1+child, binary=1+left+right)."""

    @lru_cache(maxsize=None)
    def exact(n: int):
        out = []
        if n == 1:
            return [("name", a) for a in atoms]
        for sub in exact(n - 1):
            for u in unary:
                if u[0] == "range":
                    out.append(("range", sub, u[1], u[2]))
                else:
                    out.append((u[0], sub))
        for left in range(1, n - 1):
            right = n - 1 - left
            for a in exact(left):
                for b in exact(right):
                    out.append(("seq", [a, b]))
                    out.append(("choice", [a, b]))
        return out

    return exact(k)


def freeze(ast):
    if ast[0] in ("seq", "choice"):
        return (ast[0], tuple(freeze(x) for x in ast[1]))
    if ast[0] == "name":
        return ast
    if ast[0] == "range":
        return ("range", freeze(ast[1]), ast[2], ast[3])
    return (ast[0], freeze(ast[1]))


def count_upto(atoms, k, unary=tuple(UNARY_ALL)):
    return sum(len(trees(tuple(atoms), i, tuple(unary))) for i in range(1, k + 1))
