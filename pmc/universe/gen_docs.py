"""Exhaustive generator of schema-valid documents of a scope.

Works from the reference schema model only (never asks the code under test), so
that generation does not depend on what is being checked.  All documents with
content size <= max_size over the scope's vocabulary are produced, smallest first.

Scope keys:
    types        node type names that may appear (must include the top type and usually 'text')
    texts        text strings usable as one text node
    marksets     list of mark lists (canonical JSON marks) inline nodes may carry
    attrs        {type: [attrs dict, ...]} variants (default: the type's default attrs)
    node_marks   {type: [mark list, ...]} for non-inline nodes (default [[]])
    max_size     bound on the content size of the top node
    max_depth    bound on nesting depth below the top node (default 6)
    max_children bound on children per node (default unlimited)
"""

from __future__ import annotations

from ..ref import cexpr
from ..ref.tokens import jkey, ulen


class DocGen:
    def __init__(self, model, scope: dict):
        self.m = model
        self.scope = scope
        self.types = [t for t in scope["types"] if t in model.types]
        self.texts = scope.get("texts", ["a"])
        self.marksets = scope.get("marksets", [[]])
        self.attr_variants = scope.get("attrs", {})
        self.node_marks = scope.get("node_marks", {})
        self.max_depth = scope.get("max_depth", 6)
        self.max_children = scope.get("max_children", 99)
        self._nodes: dict = {}
        self._seqs: dict = {}

    def attrs_for(self, tname):
        t = self.m.types[tname]
        if tname in self.attr_variants:
            return [self.m.full_attrs(tname, a) for a in self.attr_variants[tname]]
        if t.required_attrs:
            return []
        return [dict(t.default_attrs)] if t.attrs else [None]

    def marks_for(self, tname, parent):
        t = self.m.types[tname]
        cands = self.marksets if t.is_inline else self.node_marks.get(tname, [[]])
        return [ms for ms in cands if all(self.m.allows_mark(parent, mk["type"]) for mk in ms)]

    def nodes(self, tname: str, size: int, depth: int, parent: str):
        """All nodes of type tname with node_size == size, placed inside `parent`."""
        key = (tname, size, depth, parent if self._marks_depend(tname) else None)
        if key in self._nodes:
            return self._nodes[key]
        out = []
        t = self.m.types[tname]
        if t.is_text:
            for tx in self.texts:
                if ulen(tx) == size:
                    for ms in self.marks_for(tname, parent):
                        n = {"type": "text", "text": tx}
                        if ms:
                            n["marks"] = ms
                        out.append(n)
        elif t.is_leaf:
            if size == 1:
                for a in self.attrs_for(tname):
                    for ms in self.marks_for(tname, parent):
                        n = {"type": tname}
                        if a:
                            n["attrs"] = a
                        if ms:
                            n["marks"] = ms
                        out.append(n)
        elif size >= 2 and depth > 0:
            bodies = self.seqs(tname, t.regex, size - 2, depth - 1, self.max_children)
            if bodies:
                for a in self.attrs_for(tname):
                    for ms in self.marks_for(tname, parent):
                        for kids in bodies:
                            n = {"type": tname}
                            if a:
                                n["attrs"] = a
                            if kids:
                                n["content"] = kids
                            if ms:
                                n["marks"] = ms
                            out.append(n)
        self._nodes[key] = out
        return out

    def _marks_depend(self, tname):
        t = self.m.types[tname]
        if t.is_inline:
            return any(ms for ms in self.marksets)
        return any(ms for ms in self.node_marks.get(tname, [[]]))

    def seqs(self, parent: str, state, size: int, depth: int, count: int):
        """All child lists matching `state` (a regex term) with total size == size."""
        key = (parent, state, size, depth, count)
        if key in self._seqs:
            return self._seqs[key]
        out = []
        if size == 0:
            if cexpr.nullable(state):
                out.append([])
        elif count > 0:
            for tname in self.types:
                d = cexpr.deriv(state, tname)
                if d == cexpr.EMPTY:
                    continue
                for s in range(1, size + 1):
                    heads = self.nodes(tname, s, depth, parent)
                    if not heads:
                        continue
                    tails = self.seqs(parent, d, size - s, depth, count - 1)
                    if not tails:
                        continue
                    for h in heads:
                        hk = jkey(h.get("marks") or []) if h["type"] == "text" else None
                        for tl in tails:
                            if hk is not None and tl and tl[0]["type"] == "text" and jkey(tl[0].get("marks") or []) == hk:
                                continue  # would not be text-normal (adjacent same-mark text)
                            out.append([h, *tl])
        self._seqs[key] = out
        return out

    def docs(self, max_size: int | None = None, top_attrs=None):
        """All top-level documents with content size <= max_size, smallest first."""
        if max_size is None:
            max_size = self.scope["max_size"]
        top = self.m.top
        t = self.m.types[top]
        out = []
        attr_list = self.attrs_for(top) if top_attrs is None else top_attrs
        for size in range(0, max_size + 1):
            for kids in self.seqs(top, t.regex, size, self.max_depth, self.max_children):
                for a in attr_list:
                    n = {"type": top}
                    if a:
                        n["attrs"] = a
                    if kids:
                        n["content"] = kids
                    out.append(n)
        return out


def gen_docs(model, scope) -> list:
    return DocGen(model, scope).docs()


def mk(model, name, attrs=None):
    """Canonical JSON mark."""
    return {"type": name, "attrs": model.full_mark_attrs(name, attrs)}
