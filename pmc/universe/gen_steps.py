"""Exhaustive step enumeration for a document (plain step descriptions, see adapters.build_step)."""

from __future__ import annotations

from ..ref import cexpr
from ..ref import tokens as tk
from .gen_docs import mk

ATTR_VALUES = [None, 1, 2, "s", {"k": [1]}, 0, "", False]


def schema_marks(model, limit=5):
    out = []
    for name, mm in model.marks.items():
        req = {a: "u" for a in mm.required_attrs} or None
        out.append(mk(model, name, req))
        if mm.attrs and len(out) < limit:
            alt = {a: "v" for a in mm.required_attrs} or {mm.attrs[0]: "w"}
            out.append(mk(model, name, alt))
        if mm.required_attrs and len(out) < limit:
            # a third value: replaces two different marks of this type at once (needs coalescing to be exact)
            out.append(mk(model, name, {a: "w" for a in mm.required_attrs}))
    return out[:limit]


def replace_steps(n, pool, structure=(False, True)):
    for a in range(n + 1):
        for b in range(a, n + 1):
            for sl in pool:
                for st in structure:
                    yield {"stepType": "replace", "from": a, "to": b, "slice": sl, "structure": st}


def wrapper_chains(model, types, maxlen=2):
    """Chains of empty wrapper nodes (closed slices) of length 1..maxlen for every non-leaf, non-text type."""
    cands = [t for t in types if not model.types[t].is_leaf and not model.types[t].is_text and t != model.top
             and not model.types[t].required_attrs]
    out = []

    def node(t, inner):
        n = {"type": t}
        if model.types[t].attrs:
            n["attrs"] = dict(model.types[t].default_attrs)
        if inner is not None:
            n["content"] = [inner]
        return n

    for t in cands:
        out.append(([t], {"content": [node(t, None)], "openStart": 0, "openEnd": 0}))
    if maxlen >= 2:
        for t in cands:
            for t2 in cands:
                # payload validity: the outer wrapper's content [t2] must be valid by itself (the inner one
                # contains the insertion point and is completed by the gap)
                if not cexpr.matches(model.types[t].regex, [t2]):
                    continue
                out.append(([t, t2], {"content": [node(t, node(t2, None))], "openStart": 0, "openEnd": 0}))
    return out


def around_steps_structured(model, T, types, border=(0, 1, 2)):
    """ReplaceAroundStep shapes: wrap (gap = whole range, chain of empty wrappers) and
    unwrap/retag (k border tokens on each side removed/replaced)."""
    n = len(T)
    chains = wrapper_chains(model, types)
    for a in range(n + 1):
        for b in range(a, n + 1):
            for names, sl in chains:
                for st in (True, False):
                    yield {"stepType": "replaceAround", "from": a, "to": b, "gapFrom": a, "gapTo": b, "slice": sl,
                           "insert": len(names), "structure": st}
            for k in border:
                if k == 0:
                    continue
                if b - a >= 2 * k:
                    # drop k border tokens on each side (lift-like), nothing inserted
                    yield {"stepType": "replaceAround", "from": a, "to": b, "gapFrom": a + k, "gapTo": b - k,
                           "slice": {"content": [], "openStart": 0, "openEnd": 0}, "insert": 0, "structure": True}
                    # retag: replace k border tokens by a chain of k wrappers
                    for names, sl in chains:
                        if len(names) == k:
                            for st in (True, False):
                                yield {"stepType": "replaceAround", "from": a, "to": b, "gapFrom": a + k,
                                       "gapTo": b - k, "slice": sl, "insert": k, "structure": st}


def around_steps_all(n, pool, model):
    """Every quadruple from <= gapFrom <= gapTo <= to, every slice of the pool, every insert offset."""
    for a in range(n + 1):
        for b in range(a, n + 1):
            for ga in range(a, b + 1):
                for gb in range(ga, b + 1):
                    for sl in pool:
                        size = tk.content_size(model, sl["content"]) - sl["openStart"] - sl["openEnd"]
                        for ins in range(size + 1):
                            for st in (False, True):
                                yield {"stepType": "replaceAround", "from": a, "to": b, "gapFrom": ga, "gapTo": gb,
                                       "slice": sl, "insert": ins, "structure": st}


def mark_steps(n, marks):
    for a in range(n + 1):
        for b in range(a, n + 1):
            for m in marks:
                yield {"stepType": "addMark", "from": a, "to": b, "mark": m}
                yield {"stepType": "removeMark", "from": a, "to": b, "mark": m}


def node_steps(model, n, marks, with_undeclared=True):
    names = []
    for t in model.types.values():
        for a in t.attrs:
            if a not in names:
                names.append(a)
    if with_undeclared:
        names.append("nosuchattr")
    for p in range(n + 1):
        for m in marks:
            yield {"stepType": "addNodeMark", "pos": p, "mark": m}
            yield {"stepType": "removeNodeMark", "pos": p, "mark": m}
        for a in names:
            for v in ATTR_VALUES:
                yield {"stepType": "attr", "pos": p, "attr": a, "value": v}
    for a in [*model.types[model.top].attrs, "nosuchattr"]:
        for v in ATTR_VALUES[:3]:
            yield {"stepType": "docAttr", "attr": a, "value": v}
