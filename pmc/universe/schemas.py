"""The schema zoo.  Every member is a plain spec dict.

The bundled node/mark specs (basic, list) are *configuration data* handed in by
pmc.adapters (the only module importing prosemirror); the variants are built on
top of them exactly the way the upstream tests do.
"""

from __future__ import annotations

import copy


def _strip(spec_nodes: dict) -> dict:
    return {k: dict(v) for k, v in spec_nodes.items()}


def build_specs(basic_nodes: dict, basic_marks: dict, list_nodes: dict) -> dict:
    """Return {schema_id: spec}.  list_nodes = add_list_nodes(basic, 'paragraph block*', 'block')."""
    Z = {}
    Z["basic"] = {"nodes": _strip(basic_nodes), "marks": _strip(basic_marks)}

    ln = _strip(list_nodes)
    ln["doc"] = {"content": "block+", "attrs": {"meta": {"default": None}}}
    Z["list"] = {"nodes": ln, "marks": _strip(basic_marks)}

    # Z3 strict heading/body (upstream TestEnforcingHeadingAndBody)
    n = _strip(ln)
    n["doc"] = {**n["doc"], "content": "heading body"}
    n["body"] = {"content": "block+"}
    Z["strict_hb"] = {"nodes": n, "marks": _strip(basic_marks)}

    # Z4 title
    n = _strip(ln)
    n["title"] = {"content": "text*"}
    n["doc"] = {"content": "title? block*"}
    Z["title"] = {"nodes": n, "marks": _strip(basic_marks)}

    # Z5 fixed content
    Z["fixed"] = {
        "nodes": {
            "doc": {"content": "block+"},
            "a": {"content": "inline*"},
            "b": {"content": "inline*"},
            "block": {"content": "a b"},
            "text": {"group": "inline"},
        },
        "marks": {},
    }

    # Z6 structure-test schema
    Z["struct"] = {
        "nodes": {
            "doc": {"content": "head? block* sect* closing?"},
            "para": {"content": "text*", "group": "block"},
            "head": {"content": "text*", "marks": ""},
            "figure": {"content": "caption figureimage", "group": "block"},
            "quote": {"content": "block+", "group": "block"},
            "figureimage": {},
            "caption": {"content": "text*", "marks": ""},
            "sect": {"content": "head block* sect*"},
            "closing": {"content": "text*"},
            "text": {"group": "inline"},
            "fixed": {"content": "head para closing", "group": "block"},
        },
        "marks": {"em": {}},
    }

    # Z7 isolating container
    n = _strip(ln)
    n["iso"] = {"group": "block", "content": "block+", "isolating": True}
    Z["iso"] = {"nodes": n, "marks": _strip(basic_marks)}
    # isolating node that carries an attribute (two boxes differ by their id)
    n = _strip(ln)
    n["iso"] = {"group": "block", "content": "block+", "isolating": True, "attrs": {"id": {"default": 0}}}
    Z["iso_attr"] = {"nodes": n, "marks": _strip(basic_marks)}
    # isolating node with a SEQUENCE-like content expression (its start state differs from the later ones)
    n = _strip(ln)
    n["list_item"] = {**n["list_item"], "isolating": True}
    Z["iso_li"] = {"nodes": n, "marks": _strip(basic_marks)}

    # Z8 table-like
    n = _strip(ln)
    n["table"] = {"content": "row+", "isolating": True, "group": "block", "parseDOM": [{"tag": "table"}],
                  "toDOM": lambda _n: ["table", ["tbody", 0]]}
    n["row"] = {"content": "cell+", "parseDOM": [{"tag": "tr"}], "toDOM": lambda _n: ["tr", 0]}
    n["cell"] = {"content": "block+", "isolating": True, "parseDOM": [{"tag": "td"}], "toDOM": lambda _n: ["td", 0]}
    Z["table"] = {"nodes": n, "marks": _strip(basic_marks)}

    # Z8b the same table structure without isolating flags (multi-level lifts are possible)
    n = _strip(ln)
    n["table"] = {"content": "row+", "group": "block"}
    n["row"] = {"content": "cell+"}
    n["cell"] = {"content": "block+"}
    Z["grid"] = {"nodes": n, "marks": _strip(basic_marks)}

    # positional top node: "heading paragraph+"
    n = _strip(basic_nodes)
    n["doc"] = {"content": "heading paragraph+"}
    Z["hp"] = {"nodes": n, "marks": _strip(basic_marks)}

    # textblocks whose INLINE content is order / count sensitive
    n = _strip(basic_nodes)
    n["caption"] = {"content": "image? text*", "group": "block"}
    n["label"] = {"content": "text{0,2}", "group": "block"}
    Z["inlstrict"] = {"nodes": n, "marks": _strip(basic_marks)}

    # Z9 marks on top-level blocks
    n = _strip(basic_nodes)
    n["doc"] = {**n["doc"], "marks": "_"}
    Z["topmarks"] = {"nodes": n, "marks": _strip(basic_marks)}

    # Z10 attrs with nested JSON values
    Z["attrs"] = {
        "nodes": {
            "doc": {"content": "block+", "attrs": {"meta": {"default": None}}},
            "para": {
                "content": "inline*",
                "group": "block",
                "attrs": {"data": {"default": {"k": [1, {"x": None}]}}, "n": {"default": 0}},
                "toDOM": lambda n: ["p", {"n": n.attrs["n"], "title": None}, 0],
            },
            "widget": {
                "inline": True,
                "group": "inline",
                "attrs": {"id": {}, "cfg": {"default": None}},
                "toDOM": lambda n: ["span", n.attrs],
            },
            "gadget": {"inline": True, "group": "inline", "attrs": {"opt": {"default": 1}, "req": {}},
                       "toDOM": lambda n: ["b", n.attrs]},
            "text": {"group": "inline"},
        },
        "marks": {
            "note": {"attrs": {"id": {}, "tags": {"default": ["t"]}}, "excludes": "", "inclusive": False,
                     "toDOM": lambda m, _i: ["span", m.attrs, 0]},
            "tag": {"inclusive": False, "toDOM": lambda m, _i: ["i", 0]},
            "em": {"toDOM": lambda m, _i: ["em", 0]},
        },
    }
    # Z-ctx: list schema + a `note` block whose parse rule is restricted by a context expression
    for cid, ctx in (("ctx_bq", "blockquote/"), ("ctx_li", "list_item/"), ("ctx_bq_any", "blockquote//"),
                     ("ctx_alt", "doc/|list_item/"), ("ctx_grp", "block/"), ("ctx_gp", "bullet_list/list_item/")):
        n = _strip(ln)
        # any block may come first in a list item, so that a context-selected `note` can always be placed
        n["list_item"] = {**n["list_item"], "content": "block+"}
        n["note"] = {"content": "inline*", "group": "block",
                     "parseDOM": [{"tag": "p", "context": ctx, "priority": 60}],
                     "toDOM": lambda _n: ["p", {"class": "note"}, 0]}
        Z[cid] = {"nodes": n, "marks": _strip(basic_marks), "context": ctx}
        # the same rule with an attribute getter (rules combining `context` and `getAttrs`)
        n2 = _strip(n)
        n2["note"] = {**n["note"], "parseDOM": [{"tag": "p", "context": ctx, "priority": 60, "getAttrs": lambda _dom: {}}]}
        Z[cid + "_ga"] = {"nodes": n2, "marks": _strip(basic_marks), "context": ctx}
    # ... and with the DEFAULT priority, declared before `paragraph`: among rules of equal priority the one declared
    # first is tried first, so the context-restricted rule still wins where its context matches
    for cid, ctx in (("ctx_bq_eq", "blockquote/"), ("ctx_li_eq", "list_item/")):
        base = _strip(ln)
        base["list_item"] = {**base["list_item"], "content": "block+"}
        n = {"doc": base["doc"],
             "note": {"content": "inline*", "group": "block", "parseDOM": [{"tag": "p", "context": ctx}],
                      "toDOM": lambda _n: ["p", {"class": "note"}, 0]}}
        n.update({k: v for k, v in base.items() if k != "doc"})
        Z[cid] = {"nodes": n, "marks": _strip(basic_marks), "context": ctx}
    # the basic schema with no textblock admitting any mark (same node and mark names, other permissions)
    n = _strip(basic_nodes)
    for k in ("paragraph", "heading"):
        n[k] = {**n[k], "marks": ""}
    Z["basic_nomarks"] = {"nodes": n, "marks": _strip(basic_marks)}
    # inline nodes WITH content: an atom (`atom: true` is not the same as leaf) and a plain inline container
    n = _strip(basic_nodes)
    n["chip"] = {"inline": True, "group": "inline", "content": "text*", "atom": True,
                 "toDOM": lambda _n: ["kbd", 0], "parseDOM": [{"tag": "kbd"}]}
    n["span"] = {"inline": True, "group": "inline", "content": "text*",
                 "toDOM": lambda _n: ["span", 0], "parseDOM": [{"tag": "span"}]}
    Z["chips"] = {"nodes": n, "marks": _strip(basic_marks)}
    # an INLINE node that holds blocks (footnote): wrapping a block at an inline position is possible
    n = _strip(basic_nodes)
    n["footnote"] = {"inline": True, "group": "inline", "content": "block+",
                     "toDOM": lambda _n: ["aside", 0], "parseDOM": [{"tag": "aside"}]}
    Z["footnote"] = {"nodes": n, "marks": _strip(basic_marks)}
    Z.update(pair_specs())
    return Z


# Schema pairs for isolation checks.  The two members of a pair have the SAME node and mark names (so documents,
# slices and steps have the same JSON) and the same content-expression strings, but differ in meaning: group
# membership, mark rank order and mark exclusion.  adapters.ctx always instantiates the two
# members of a pair in the order given here, in whatever process they are first used, so that state leaking from
# one Schema instance into another (module-level caches, registries keyed by names or JSON) is observed
# deterministically; the two tags give both creation orders.
PAIR_ORDERS = {"1": "PS", "2": "SP"}


def pair_specs() -> dict:
    out = {}
    for tag in PAIR_ORDERS:
        para, rule, quote = "para" + tag, "rule" + tag, "quote" + tag
        em, strong, code = "em" + tag, "strong" + tag, "code" + tag
        for kind in "PS":
            P = kind == "P"
            nodes = {
                "doc": {"content": "block+"},
                para: {"content": "inline*", "group": "block", "attrs": {"n": {"default": 0}}},
                rule: {"group": "block" if P else "misc"},
                quote: {"content": "block+", "group": "block"},
                "text": {"group": "inline"},
            }
            m = {em: {"excludes": em if P else f"{em} {strong}"}, strong: {}, code: {}}
            names = [em, strong, code] if P else [code, strong, em]
            out[f"pair{kind}{tag}"] = {"nodes": nodes, "marks": {k: m[k] for k in names}}
    return out


def mark_family_specs(orders=None):
    """F-marks: enumerated family of mark configurations over 3 mark types A, B, C
    (A carries an `id` attribute so two different A marks can coexist / exclude each other).

    excludes of each in {absent, '', '_', 'A', 'B', 'C', 'both', 'grp'} (B: groups "grp both", C: "xgrp both");
    every declaration (= rank) order of A, B, C; parents with marks in {absent, '', '_', 'A', 'B C', 'grp'}.
    Returns [(id, spec)]."""
    import itertools

    # groups: B is in "grp" and "both", C in "xgrp" (a name that merely CONTAINS "grp") and "both"
    ex_opts = [None, "", "_", "A", "B", "C", "both", "grp"]
    out = []
    orders = orders or list(itertools.permutations(["A", "B", "C"]))
    for oi, order in enumerate(orders):
        k = 0
        for ea in ex_opts:
            for eb in ex_opts:
                for ec in ex_opts:
                    ex = {"A": ea, "B": eb, "C": ec}
                    marks = {}
                    for name in order:
                        ms = {}
                        if name == "A":
                            ms["attrs"] = {"id": {"default": 0}}
                        else:
                            ms["group"] = "grp both" if name == "B" else "xgrp both"
                        if ex[name] is not None:
                            ms["excludes"] = ex[name]
                        marks[name] = ms
                    nodes = {
                        "doc": {"content": "block+"},
                        "paragraph": {"content": "inline*", "group": "block"},
                        "plain": {"content": "inline*", "group": "block", "marks": ""},
                        "p_all": {"content": "inline*", "group": "block", "marks": "_"},
                        "p_A": {"content": "inline*", "group": "block", "marks": "A"},
                        "p_BC": {"content": "inline*", "group": "block", "marks": "B C"},
                        "p_both": {"content": "inline*", "group": "block", "marks": "both"},
                        "p_grp": {"content": "inline*", "group": "block", "marks": "grp"},
                        "box": {"content": "block+", "group": "block"},
                        "box_A": {"content": "block+", "group": "block", "marks": "A"},
                        "box_grp": {"content": "block+", "group": "block", "marks": "grp C"},
                        "text": {"group": "inline"},
                        "atom": {"inline": True, "group": "inline"},
                        "chip": {"inline": True, "group": "inline", "content": "text*", "atom": True},
                        "span": {"inline": True, "group": "inline", "content": "text*"},
                    }
                    out.append((f"fm{oi}.{k}", {"nodes": nodes, "marks": marks}))
                    k += 1
    return out


def deep(spec):
    return copy.deepcopy(spec)


# ---------------------------------------------------------------------------
# F-gen: enumerated family of well-founded generated schemas (containment is acyclic:
# doc > A > B > T, so every filler terminates).  Replaces "randomly generated schemas".

FGEN_DOC = ["A+", "A*", "(A | B)+", "A B*", "B+ A?", "T+", "(A | T)+", "A? T*", "block+", "A{2}", "T A*"]
FGEN_A = ["T+", "B+", "T B*", "(T | B)+", "L* T", "T{2}", "B? T+", "T* B"]
FGEN_B = ["T+", "T*", "L+", "(T | L)+", "R* T", "T L?"]


def fgen_spec(i: int, j: int, k: int, variant: int = 0) -> dict:
    nodes = {
        "doc": {"content": FGEN_DOC[i]},
        "A": {"content": FGEN_A[j], "group": "block"},
        "B": {"content": FGEN_B[k], "group": "block"},
        "T": {"content": "inline*" if variant else "text*", "group": "block"},
        "L": {},
        "R": {"attrs": {"x": {}}},
        "text": {"group": "inline"},
        "br": {"inline": True, "group": "inline"},
    }
    if variant == 1:
        nodes["B"]["isolating"] = True
        nodes["A"]["defining"] = True
    return {"nodes": nodes, "marks": {"em": {}, "strong": {}}}


def fgen_ids(variants=(0, 1)):
    out = []
    for i in range(len(FGEN_DOC)):
        for j in range(len(FGEN_A)):
            for k in range(len(FGEN_B)):
                for v in variants:
                    out.append((f"fg{i}.{j}.{k}.{v}", (i, j, k, v)))
    return out
