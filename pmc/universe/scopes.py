"""Named scopes: (schema, vocabulary, text alphabet, mark-set alphabet, attr variants, bounds).

A scope denotes a *complete* finite set of documents (everything gen_docs produces).
Tiers pick scopes and bounds; nothing is ever sampled from inside a scope.
"""

from __future__ import annotations

from .gen_docs import mk


def _ms(model, *names_lists):
    out = []
    for names in names_lists:
        out.append([mk(model, n, a) for n, a in names])
    return out


LINK = ("link", {"href": "u", "title": None})
EM = ("em", None)
STRONG = ("strong", None)
CODE = ("code", None)


def scope(model, family: str, schema_id: str, size: int, **over) -> dict:
    """Build the scope `family` for the schema (model) with max content size `size`."""
    T = model.types
    s: dict
    if family == "blocks":
        s = {
            "types": ["doc", "paragraph", "heading", "blockquote", "code_block", "horizontal_rule", "text"],
            "texts": ["a"],
            "attrs": {"heading": [{"level": 1}, {"level": 2}]},
        }
    elif family == "blocks2":  # two characters: text nodes can be split
        s = {
            "types": ["doc", "paragraph", "heading", "blockquote", "code_block", "horizontal_rule", "text"],
            "texts": ["a", "bc"],
            "attrs": {"heading": [{"level": 1}]},
        }
    elif family == "long":  # three characters: positions strictly inside a text node, not next to its ends
        s = {
            "types": ["doc", "paragraph", "blockquote", "text"],
            "texts": ["a", "bcd"],
        }
    elif family == "pair":  # isolation pairs (schemas.pair_specs): everything the schema has, names taken from the model
        ms = list(model.mark_names)
        from ..ref import marks as rmk

        msets = []
        for names in ([], ms[:1], ms[1:2], ms[:2], ms[2:3], [ms[0], ms[2]]):
            cs = rmk.canon_set(model, [mk(model, n, None) for n in names])
            if rmk.is_canonical(model, cs) and cs not in msets:
                msets.append(cs)
        s = {"types": list(model.type_names), "texts": ["a"], "marksets": msets, "max_children": 3}
    elif family == "chips":
        s = {
            "types": ["doc", "paragraph", "text", "chip", "span", "hard_break"],
            "texts": ["a", "bc"],
            "marksets": _ms(model, [], [EM]),
            "max_children": 3,
        }
    elif family == "inline":
        s = {
            "types": ["doc", "paragraph", "text", "hard_break", "image"],
            "texts": ["a", "bc"],
            "marksets": _ms(model, [], [EM], [STRONG], [EM, STRONG], [LINK]),
            "attrs": {"image": [{"src": "i.png"}]},
        }
    elif family == "inline_s":  # smaller mark alphabet
        s = {
            "types": ["doc", "paragraph", "code_block", "text", "hard_break"],
            "texts": ["a", "bc"],
            "marksets": _ms(model, [], [EM], [EM, STRONG]),
        }
    elif family == "links":  # two different, mutually exclusive marks of one type on adjacent text
        LINK2 = ("link", {"href": "v", "title": None})
        s = {
            "types": ["doc", "paragraph", "text"],
            "texts": ["a", "bc"],
            "marksets": _ms(model, [], [LINK], [LINK2], [LINK, EM], [EM]),
            "max_children": 3,
        }
    elif family == "lists":
        s = {
            "types": ["doc", "paragraph", "bullet_list", "ordered_list", "list_item", "text"],
            "texts": ["a"],
            "max_children": 2,
            "max_depth": 5,
        }
    elif family == "lists_q":  # lists + blockquote
        s = {
            "types": ["doc", "paragraph", "bullet_list", "list_item", "blockquote", "text"],
            "texts": ["a"],
            "max_children": 2,
            "max_depth": 5,
        }
    elif family == "astral":
        s = {
            "types": ["doc", "paragraph", "code_block", "text"],
            "texts": ["a", "\U0001F600", "\U0001F601", "\n", "a\U0001F600", "\U0001F600a", "\U0001F600\U0001F601", "\U0001F600\n"],
        }
    elif family == "iso":
        s = {
            "types": ["doc", "paragraph", "iso", "blockquote", "text"],
            "texts": ["a"],
            "max_children": 2,
            "max_depth": 5,
        }
    elif family == "iso_list":
        s = {
            "types": ["doc", "paragraph", "iso", "bullet_list", "list_item", "text"],
            "texts": ["a"],
            "max_children": 2,
            "max_depth": 6,
        }
    elif family == "table":
        s = {
            "types": ["doc", "paragraph", "table", "row", "cell", "text"],
            "texts": ["a"],
            "max_children": 2,
            "max_depth": 7,
        }
    elif family == "strict":
        s = {
            "types": ["doc", "heading", "body", "paragraph", "blockquote", "text"],
            "texts": ["a"],
            "attrs": {"heading": [{"level": 1}]},
            "max_children": 3,
        }
    elif family == "title":
        s = {
            "types": ["doc", "title", "paragraph", "bullet_list", "list_item", "text"],
            "texts": ["a"],
            "max_children": 2,
        }
    elif family == "fixed":
        s = {"types": ["doc", "block", "a", "b", "text"], "texts": ["x"], "max_children": 2}
    elif family == "struct":
        s = {
            "types": ["doc", "para", "head", "figure", "quote", "figureimage", "caption", "sect",
                      "closing", "text", "fixed"],
            "texts": ["a"],
            "marksets": _ms(model, [], [EM]),
            "max_children": 3,
            "max_depth": 4,
        }
    elif family == "topmarks":
        s = {
            "types": ["doc", "paragraph", "horizontal_rule", "blockquote", "code_block", "text"],
            "texts": ["a"],
            "marksets": _ms(model, [], [EM]),
            "node_marks": {
                "paragraph": _ms(model, [], [EM], [EM, STRONG]),
                "horizontal_rule": _ms(model, [], [STRONG]),
            },
        }
    elif family == "attrs":
        s = {
            "types": ["doc", "para", "widget", "text"],
            "texts": ["a"],
            "marksets": _ms(model, [], [("note", {"id": 1})], [("note", {"id": 1}), ("note", {"id": 2})],
                            [("note", {"id": 1, "tags": ["x", {"y": 1}]}), ("em", None)],
                            [("note", {"id": 1}), ("tag", None)], [("tag", None)]),
            "attrs": {
                "para": [{}, {"data": {"z": [1, 2]}, "n": 5}],
                "widget": [{"id": 7}, {"id": "w", "cfg": {"deep": [1, {"k": "v"}]}}],
            },
        }
    elif family == "marks3":  # runs of three and more one-character text nodes with alternating marks
        s = {
            "types": ["doc", "paragraph", "text"],
            "texts": ["a", "b"],
            "marksets": _ms(model, [], [LINK]),  # LINK is the first mark gen_steps.schema_marks offers
            "max_children": 4,
        }
    elif family == "pcode":  # neighbouring textblocks one of which forbids all marks
        s = {"types": ["doc", "paragraph", "code_block", "text"], "texts": ["a"], "max_children": 3}
    elif family == "iso_attr":
        s = {"types": ["doc", "paragraph", "iso", "text"], "texts": ["a"], "attrs": {"iso": [{"id": 1}, {"id": 2}]},
             "max_children": 3}
    elif family == "lowbyte":  # code units that differ only in their HIGH byte (U+0061 / U+0161, U+0030 / U+0430)
        s = {"types": ["doc", "paragraph", "text"], "texts": ["a", "\u0161", "a\u0161", "\u0161a", "0", "\u0430"],
             "max_children": 2}
    elif family == "astral2":  # plain two-character text that gets cut in the middle, and astral text to merge into it
        s = {"types": ["doc", "paragraph", "text"], "texts": ["ab", "\U0001F600", "c"], "max_children": 2}
    elif family == "three":  # short paragraphs, three and more in one parent
        s = {"types": ["doc", "paragraph", "blockquote", "text"], "texts": ["a"], "max_children": 3}
    elif family == "attrs_sub":  # attribute values that are key-subsets / prefixes of one another
        s = {
            "types": ["doc", "para", "widget", "text"],
            "texts": ["a"],
            "marksets": _ms(model, [], [("note", {"id": 1, "tags": []})], [("note", {"id": 1, "tags": ["t", "x"]})]),
            "attrs": {
                "para": [{"data": {}}, {"data": {"k": 1}}, {"data": {"k": 1, "j": 2}}],
                "widget": [{"id": 7, "cfg": []}, {"id": 7, "cfg": [1]}, {"id": 7, "cfg": [1, 2]}],
            },
            "max_children": 2,
        }
    elif family == "fmarks":
        from ..ref import marks as rmk

        A0 = ("A", {"id": 0})
        A1 = ("A", {"id": 1})
        B = ("B", None)
        C = ("C", None)
        cands = [[], [A0], [B], [C], [A0, B], [B, C], [A0, A1], [A0, C]]
        msets = []
        for names in cands:
            ms = rmk.canon_set(model, [mk(model, n, a) for n, a in names])
            if rmk.is_canonical(model, ms) and ms not in msets:
                msets.append(ms)
        s = {
            "types": ["doc", "paragraph", "plain", "p_A", "p_grp", "text", "atom", "chip", "span"],
            "texts": ["a", "bc"],
            "marksets": msets,
            "max_children": 3,
        }
    elif family == "hp":
        s = {
            "types": ["doc", "heading", "paragraph", "text"],
            "texts": ["a"],
            "attrs": {"heading": [{"level": 1}]},
            "max_children": 3,
        }
    elif family == "inlstrict":
        s = {
            "types": ["doc", "paragraph", "caption", "label", "text", "image"],
            "texts": ["a", "bc"],
            "marksets": _ms(model, [], [EM]),
            "attrs": {"image": [{"src": "i.png"}]},
            "max_children": 3,
        }
    elif family == "fmarks_c":  # F-marks documents with inline containers that have content
        from ..ref import marks as rmk

        cands = [[], [("A", {"id": 0})], [("B", None)], [("A", {"id": 0}), ("B", None)]]
        msets = []
        for names in cands:
            ms = rmk.canon_set(model, [mk(model, n, a) for n, a in names])
            if rmk.is_canonical(model, ms) and ms not in msets:
                msets.append(ms)
        s = {
            "types": ["doc", "paragraph", "plain", "text", "chip", "span"],
            "texts": ["a"],
            "marksets": msets,
            "max_children": 2,
        }
    elif family == "fgen":
        s = {
            "types": ["doc", "A", "B", "T", "L", "R", "text", "br"],
            "texts": ["a"],
            "marksets": _ms(model, [], [EM]),
            "attrs": {"R": [{"x": 1}]},
            "max_children": 2,
            "max_depth": 4,
        }
    else:
        raise KeyError(family)
    s["types"] = [t for t in s["types"] if t in T]
    s["max_size"] = size
    s["family"] = family
    s["schema"] = schema_id
    s.update(over)
    s["name"] = f"{schema_id}/{family}<={size}"
    return s


def families_for(schema_id: str) -> list[str]:
    return {
        "basic": ["blocks", "blocks2", "long", "marks3", "pcode", "lowbyte", "three", "inline", "inline_s", "astral", "links"],
        "list": ["blocks", "blocks2", "long", "marks3", "astral2", "inline", "inline_s", "lists", "lists_q", "astral"],
        "strict_hb": ["strict"],
        "title": ["title"],
        "fixed": ["fixed"],
        "struct": ["struct"],
        "iso": ["iso", "iso_list"],
        "table": ["table"],
        "grid": ["table"],
        "hp": ["hp"],
        "iso_li": ["lists", "lists_q"],
        "iso_attr": ["iso_attr"],
        "footnote": ["blocks"],
        "chips": ["chips"],
        **{f"pair{k}{t}": ["pair"] for k in "PS" for t in "12"},
        "inlstrict": ["inlstrict"],
        "topmarks": ["topmarks"],
        "attrs": ["attrs", "attrs_sub"],
    }[schema_id]
