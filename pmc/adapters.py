"""The ONLY module that imports prosemirror.

Binds the checker to the code under test: puts $PM_REPO (default /repo) first on
sys.path so the *current working tree* is executed, builds real Schema objects for
the zoo, converts JSON <-> live objects.
"""

from __future__ import annotations

import json
import os
import sys

REPO = os.environ.get("PM_REPO", "/repo")
if sys.path[0] != REPO:
    sys.path.insert(0, REPO)
# make sure an already imported copy from elsewhere is never used
for _m in [m for m in sys.modules if m == "prosemirror" or m.startswith("prosemirror.")]:
    del sys.modules[_m]

import prosemirror  # noqa: E402
from prosemirror import model as pm_model  # noqa: E402
from prosemirror import transform as pm_transform  # noqa: E402
from prosemirror.model import (  # noqa: E402
    ContentMatch,
    Fragment,
    Mark,
    Node,
    ReplaceError,
    Schema,
    Slice,
)
from prosemirror.schema.basic import schema as basic_schema  # noqa: E402
from prosemirror.schema.list import add_list_nodes  # noqa: E402
from prosemirror.transform import (  # noqa: E402
    AddMarkStep,
    AddNodeMarkStep,
    AttrStep,
    Mapping,
    RemoveMarkStep,
    RemoveNodeMarkStep,
    ReplaceAroundStep,
    ReplaceStep,
    Step,
    StepMap,
    Transform,
    TransformError,
)
from prosemirror.transform.doc_attr_step import DocAttrStep  # noqa: E402
from prosemirror.transform.step import STEPS_BY_ID  # noqa: E402

from .ref.schema_model import SchemaModel  # noqa: E402
from .universe import schemas as zoo  # noqa: E402

assert os.path.realpath(prosemirror.__file__).startswith(os.path.realpath(REPO) + os.sep), (
    "prosemirror imported from " + prosemirror.__file__ + " instead of " + REPO
)

_specs = None
_ctx_cache: dict = {}


def zoo_specs() -> dict:
    global _specs
    if _specs is None:
        bn = dict(basic_schema.spec["nodes"])
        bm = dict(basic_schema.spec["marks"])
        ln = add_list_nodes(bn, "paragraph block*", "block")
        _specs = zoo.build_specs(bn, bm, ln)
    return _specs


class Ctx:
    """A schema: spec + real Schema + reference model."""

    def __init__(self, sid: str, spec: dict, real=None):
        self.id = sid
        self.spec = spec
        self.schema = real if real is not None else Schema(spec)
        self.model = SchemaModel(spec)
        self._slice_cache: dict = {}

    # JSON -> live
    def node(self, j) -> Node:
        return Node.from_json(self.schema, j)

    def fragment(self, jl) -> Fragment:
        return Fragment.from_json(self.schema, jl)

    def slice(self, j) -> Slice:
        """j = {"content": [...], "openStart": n, "openEnd": n}  (content may be [] -> explicit Slice)"""
        if j is None:
            return Slice.empty
        # the same description always yields the SAME live object (within a process): payload objects are shared
        # between cases exactly as an application would reuse a clipboard slice
        key = json.dumps(j, sort_keys=True, default=repr)
        hit = self._slice_cache.get(key)
        if hit is not None:
            return hit
        if len(self._slice_cache) > 20000:
            self._slice_cache.clear()
        self._slice_cache[key] = sl = self._make_slice(j)
        return sl

    def _make_slice(self, j) -> Slice:
        return Slice(
            Fragment.from_json(self.schema, j.get("content") or None),
            j.get("openStart", 0),
            j.get("openEnd", 0),
        )

    def mark(self, j) -> Mark:
        return Mark.from_json(self.schema, j)

    def marks(self, jl) -> list:
        return [self.mark(m) for m in jl or []]

    def step(self, j) -> Step:
        return Step.from_json(self.schema, j)


def ctx(sid: str, spec: dict | None = None) -> Ctx:
    """Zoo member by id, or an ad-hoc (family) schema when spec is given."""
    if sid in _ctx_cache:
        return _ctx_cache[sid]
    if spec is None and sid.startswith("pair"):
        # both members of an isolation pair, always in the prescribed creation order (see schemas.pair_specs)
        tag = sid[5:]
        for kind in zoo.PAIR_ORDERS[tag]:
            k = f"pair{kind}{tag}"
            if k not in _ctx_cache:
                _ctx_cache[k] = Ctx(k, zoo_specs()[k])
        return _ctx_cache[sid]
    if spec is None:
        spec = zoo_specs()[sid]
    c = Ctx(sid, spec)
    if len(_ctx_cache) > 4000:
        _ctx_cache.clear()
    _ctx_cache[sid] = c
    return c


def slice_json(s: Slice) -> dict:
    return {
        "content": s.content.to_json() or [],
        "openStart": s.open_start,
        "openEnd": s.open_end,
    }


def marks_json(ms) -> list:
    return [m.to_json() for m in ms]


VALUE_ERRORS = (ValueError,)  # ReplaceError, TransformError, UnicodeError are subclasses


def is_value_error(e: BaseException) -> bool:
    return isinstance(e, ValueError)


def exc_site(e: BaseException) -> str:
    """Deepest frame inside the prosemirror package: file:function."""
    tb = e.__traceback__
    site = "?"
    while tb is not None:
        fn = tb.tb_frame.f_code.co_filename
        if os.sep + "prosemirror" + os.sep in fn:
            site = os.path.basename(fn) + ":" + tb.tb_frame.f_code.co_name
        tb = tb.tb_next
    return site


def build_step(c: Ctx, d: dict) -> Step:
    """Build a step through the public constructors from a plain description
    (same keys as the library's JSON; `slice` always explicit)."""
    k = d["stepType"]
    if k == "replace":
        return ReplaceStep(d["from"], d["to"], c.slice(d.get("slice")), d.get("structure", False))
    if k == "replaceAround":
        return ReplaceAroundStep(d["from"], d["to"], d["gapFrom"], d["gapTo"], c.slice(d.get("slice")), d["insert"],
                                 d.get("structure", False))
    if k == "addMark":
        return AddMarkStep(d["from"], d["to"], c.mark(d["mark"]))
    if k == "removeMark":
        return RemoveMarkStep(d["from"], d["to"], c.mark(d["mark"]))
    if k == "addNodeMark":
        return AddNodeMarkStep(d["pos"], c.mark(d["mark"]))
    if k == "removeNodeMark":
        return RemoveNodeMarkStep(d["pos"], c.mark(d["mark"]))
    if k == "attr":
        return AttrStep(d["pos"], d["attr"], d["value"])
    if k == "docAttr":
        return DocAttrStep(d["attr"], d["value"])
    raise KeyError(k)


def step_desc(step: Step) -> dict:
    """Plain description of a live step (inverse of build_step)."""
    if isinstance(step, ReplaceStep):
        return {"stepType": "replace", "from": step.from_, "to": step.to, "slice": slice_json(step.slice),
                "structure": step.structure}
    if isinstance(step, ReplaceAroundStep):
        return {"stepType": "replaceAround", "from": step.from_, "to": step.to, "gapFrom": step.gap_from,
                "gapTo": step.gap_to, "slice": slice_json(step.slice), "insert": step.insert,
                "structure": step.structure}
    if isinstance(step, AddMarkStep):
        return {"stepType": "addMark", "from": step.from_, "to": step.to, "mark": step.mark.to_json()}
    if isinstance(step, RemoveMarkStep):
        return {"stepType": "removeMark", "from": step.from_, "to": step.to, "mark": step.mark.to_json()}
    if isinstance(step, AddNodeMarkStep):
        return {"stepType": "addNodeMark", "pos": step.pos, "mark": step.mark.to_json()}
    if isinstance(step, RemoveNodeMarkStep):
        return {"stepType": "removeNodeMark", "pos": step.pos, "mark": step.mark.to_json()}
    if isinstance(step, AttrStep):
        return {"stepType": "attr", "pos": step.pos, "attr": step.attr, "value": step.value}
    if isinstance(step, DocAttrStep):
        return {"stepType": "docAttr", "attr": step.attr, "value": step.value}
    raise TypeError(type(step))
