"""Start-up self tests of the reference models (MANIFEST.setup_cmd). No build step is needed."""

import re
import sys


def main():
    from .ref import cexpr

    n = cexpr.selftest()
    from . import adapters
    from .ref import tokens
    from .universe import gen_docs, scopes

    total = 0
    for sid, fam, size in [("basic", "blocks", 5), ("list", "lists", 10), ("basic", "inline_s", 4), ("list", "astral", 5)]:
        c = adapters.ctx(sid)
        docs = gen_docs.gen_docs(c.model, scopes.scope(c.model, fam, sid, size))
        total += tokens.selftest(c.model, docs)
    # independence: the reference models must not import the library
    import importlib
    import pathlib

    for f in pathlib.Path(__file__).parent.joinpath("ref").glob("*.py"):
        src = f.read_text()
        assert not re.search(r"^\s*(import|from)\s+(prosemirror|\.\.adapters|pmc\.adapters)", src, re.M), f
    print(f"selftest ok: {n} expressions, {total} documents, library at {adapters.REPO}")
    return 0


if __name__ == "__main__":
    sys.exit(main())
