#!/venv/bin/python
"""Regenerate /verif/MANIFEST.json from the table below (keeps it valid at all times)."""

import json
import os

VERIF = os.path.dirname(os.path.dirname(os.path.abspath(__file__)))

# id -> (technique, level text, level note, design ref)
CLAIMED = {
    "C02": (
        "bounded-exhaustive input-space exploration (E1) of the real Node.slice/cut/replace against a flat-token splice model",
        "Every document of the listed scopes x every position pair x every reference-computed slice of the donor "
        "scope is executed on the real code and compared with the token-splice reference (result tokens, size, "
        "rejection exactly when the spliced sequence is ill-formed or schema-invalid). Exhaustive inside the bounds, "
        "nothing sampled.",
        "bounded scopes (documents <= 6-16 tokens depending on vocabulary); trusted: CPython, the reference token/"
        "validity/content-expression models in pmc/ref (self-tested at start-up and compared with the implementation "
        "on every generated document)",
        "DESIGN.md 5/C02",
    ),
}

NOT_YET = {
}


def main():
    props = [json.loads(line) for line in open(os.path.join(VERIF, "properties.jsonl"))]
    checks = []
    na = []
    for p in props:
        pid = p["id"]
        if pid in CLAIMED:
            tech, text, note, ref = CLAIMED[pid]
            checks.append({
                "property_id": pid,
                "quick_cmd": f"./check {pid} --tier quick",
                "thorough_cmd": f"./check {pid} --tier thorough",
                "evidence_file": f"/verif/evidence/{pid}.json",
                "replay_cmd_template": f"./check {pid} --replay {{path}}",
                "engine": "pmc",
                "level_claimed": {"category": "model_checking", "text": text, "design_ref": ref},
                "level_note": note,
                "technique": tech,
            })
        else:
            na.append({"property_id": pid, "reason": NOT_YET.get(pid, "check not built yet (work in progress; see DESIGN.md section 8)")})
    man = {
        "version": 1,
        "setup_cmd": "/venv/bin/python -m pmc.selftest",
        "hooks": {
            "guard": "FELLOWAPP_PROSEMIRROR_PY_VERIF",
            "enable": "no instrumentation is needed: every observation point is a public method; checks import the "
                      "working tree of /repo directly (PM_REPO overrides the path for mutation runs)",
            "baseline_off_cmd": "cd /repo && /venv/bin/python -m pytest -ra -q -p no:cacheprovider --timeout=900 "
                                "--continue-on-collection-errors",
            "source_commits": [],
            "add_only": True,
        },
        "engines": [{
            "name": "pmc",
            "path": "/verif/pmc",
            "serves_properties": sorted(CLAIMED),
            "kind_free_text": "hand-written explicit-state / bounded-exhaustive model checker for Python values: "
                               "E1 input-space explorer, E2 state-graph BFS over real API calls, E3 automaton-product "
                               "explorer; independent reference models in pmc/ref",
        }],
        "checks": checks,
        "not_applicable": na,
        "notes": "All checks run /venv/bin/python against the current working tree of /repo. KNOWN_FINDINGS.txt lists "
                 "fixed and known defects. VERIF_SEED only rotates which complete extra scope the quick tier adds.",
    }
    with open(os.path.join(VERIF, "MANIFEST.json"), "w") as f:
        json.dump(man, f, indent=1)
    print("claimed", len(checks), "not_applicable", len(na))


if __name__ == "__main__":
    main()
