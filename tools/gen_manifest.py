#!/venv/bin/python
"""Regenerate /verif/MANIFEST.json from the table below (keeps it valid at all times)."""

import json
import os

VERIF = os.path.dirname(os.path.dirname(os.path.abspath(__file__)))

# id -> (technique, level text, level note, design ref)
COMMON_NOTE = ("bounded scopes as listed in the evidence file; trusted: CPython, the reference models in pmc/ref "
               "(no shared code with the library, self-tested at start-up and compared with the implementation on every "
               "generated document), the generators in pmc/universe")

CLAIMED = {
    "C01": ("bounded-exhaustive exploration (E1) of Step.apply over all steps of the eight types; every returned "
            "document validated at every node by an independent reference validator",
            "All scope documents x every step (all ranges x pool slices x structure flag; wrap/unwrap/retag "
            "replace-around shapes; all (from, gapFrom, gapTo, to) x slice x insert quadruples on a sequence-like schema, thorough: on more scopes; all mark ranges; all node-mark/attr/doc-attr steps), applied "
            "as built and after a real JSON encode/decode: outcome must be failure or a fully valid document, never "
            "an internal error.", COMMON_NOTE, "DESIGN.md 5/C01"),
    "C02": ("bounded-exhaustive input-space exploration (E1) of Node.slice/cut/replace against a flat-token splice model",
            "Every document of the listed scopes x every position pair x every reference-computed slice of the donor "
            "scope is executed on the real code and compared with the token-splice reference (result tokens, size, "
            "rejection exactly when the spliced sequence is ill-formed or schema-invalid). Includes inline atoms with content and pairs of schemas with identical names but different meaning instantiated in both orders in one process.", COMMON_NOTE, "DESIGN.md 5/C02"),
    "C03": ("bounded-exhaustive exploration: every applied primitive step (E1) and every step emitted by the transform "
            "operation menu on initial and reachable documents (E2), checked against a token-alignment oracle",
            "For every applied step: size delta = sum(new-old), every old token outside the map's ranges is found "
            "unchanged at the shifted index, map() agrees; Transform.mapping equals the steps' maps and composes "
            "faithfully.", COMMON_NOTE, "DESIGN.md 5/C03"),
    "C04": ("explicit-state exploration (E2) of the document state graph under the transform operation menu: every "
            "transition from every scope document (fresh Transform), two/three-operation histories through one "
            "Transform incl. rejected operations, plus exhaustive single steps under zoo, F-gen and F-marks schemas",
            "Bookkeeping alignment (also after rejected operations), replay of recorded steps, exact undo by inverted "
            "steps in reverse order, inverse maps, on every explored transition / history.", COMMON_NOTE, "DESIGN.md 5/C04"),
    "C05": ("bounded-exhaustive exploration (E1) of to_json -> json.dumps -> json.loads -> from_json for every document, "
            "fragment, slice, mark and step of the pools, with deep mutation of the produced JSON to expose aliasing",
            "Equal object, identical JSON, identical step effect/map on a document pool, no aliasing of live attrs, "
            "registry decodes all eight step types (also in a fresh interpreter); documents produced by applying steps round-trip too; the same JSON decoded under two same-named schemas one after the other yields objects of the right schema.", COMMON_NOTE, "DESIGN.md 5/C05"),
    "C06": ("automaton-product exploration (E3): all expression syntax trees up to a node bound compiled by the real "
            "Schema; reachable pairs (ContentMatch state, Brzozowski derivative) explored to closure",
            "Language equivalence for child sequences of unbounded length is decided on the product automaton of every "
            "enumerated expression; malformed token strings up to a length bound must be rejected.", COMMON_NOTE,
            "DESIGN.md 5/C06"),
    "C07": ("bounded-exhaustive exploration (E1) of the validity predicates on all small trees (valid or not), all "
            "single-fault mutations of valid documents and all child ranges x replacement fragments",
            "check/valid_content/can_replace/can_replace_with/can_append/create_checked answer exactly as the reference "
            "validator on every enumerated input.", COMMON_NOTE, "DESIGN.md 5/C07"),
    "C08": ("bounded-exhaustive exploration of all step maps with <= 3 ranges x all positions x both sides (E1) and of "
            "all mapping construction histories of <= 3 maps incl. mirrored palindromes (E2)",
            "Positions, monotonicity, deletion flags, recover, touches, for_each, inversion; mappings equal the "
            "left-to-right composition under slice/append/invert; mirrored pairs return every position.", COMMON_NOTE,
            "DESIGN.md 5/C08"),
    "C09": ("bounded-exhaustive exploration (E1): every position and position pair of every scope document x every "
            "ResolvedPos / Node traversal accessor, compared with a counting reference on the JSON tree",
            "All accessors agree with the flat token picture, in UTF-16 units, including astral text and non-inclusive "
            "marks.", COMMON_NOTE, "DESIGN.md 5/C09"),
    "C10": ("explicit-state exploration (E2) over a heap of shared live objects: the whole public operation menu is "
            "run in forward and reverse order on the same objects with value snapshots compared after every operation",
            "No document, fragment, slice, mark, mark list, step, step map, mapping window or shared singleton changes "
            "value; Transform and Mapping only append.", COMMON_NOTE, "DESIGN.md 5/C10"),
    "C11": ("bounded-exhaustive exploration (E1) of the seven replace-family operations and replace_step over all "
            "ranges x pool slices/nodes; totality on the zoo, validity + content preservation also on the enumerated "
            "F-gen schema family",
            "No exception on the bundled schemas and their variants; every returned document reference-valid; leaf "
            "sequence before/after the range kept with marks; inserted text an in-order subsequence of the slice; "
            "deletes remove exactly the range's text.", COMMON_NOTE, "DESIGN.md 5/C11"),
    "C12": ("bounded-exhaustive exploration (E1) of the structure helpers at every position / block range / type / "
            "slice, each approval followed by performing the edit on the real Transform",
            "Helpers never raise and return in-range values; approved split/join/lift/wrap/insert/drop succeed and "
            "give valid documents; split/join/lift/wrap (approved or not) keep the leaf sequence.", COMMON_NOTE,
            "DESIGN.md 5/C12"),
    "C13": ("bounded-exhaustive exploration (E1) of add/remove mark, node-mark, attribute, block-type and markup "
            "edits over all ranges x marks x types on the zoo and the F-marks family, against per-token predictions",
            "Result equals the reference prediction token by token (marks added/removed exactly in range where "
            "allowed, everything else identical); retyping keeps children the new type can hold.", COMMON_NOTE,
            "DESIGN.md 5/C13"),
    "C16": ("bounded-exhaustive exploration (E1) of ordered step pairs (all replace steps x all adjacent replace steps, "
            "all pairs of mark steps) with a differential oracle: merged step vs sequential application on every "
            "document of a pool",
            "Whenever merge returns a step it succeeds wherever the pair applies, gives the same document and the same "
            "size change.", COMMON_NOTE, "DESIGN.md 5/C16"),
    "C17": ("explicit-state diamond exploration (E2): all pairs of strictly separated steps emitted by the operation "
            "menu on every scope document (and reachable documents in the thorough tier)",
            "Rebased steps are not dropped, both orders apply and give equal documents.", COMMON_NOTE, "DESIGN.md 5/C17"),
    "C18": ("bounded-exhaustive exploration (E1) of replace-family edits, lifts and splits inside every isolating "
            "node of every iso/table scope document, with a token prefix/suffix oracle",
            "Tokens up to the node's opening and from its closing on are unchanged and still delimit one node; "
            "lift targets and approved splits stay inside; max_open keeps isolating nodes closed.", COMMON_NOTE,
            "DESIGN.md 5/C18"),
    "C14": ("explicit-state exploration (E2) of the mark-set graph of every configuration of an enumerated family of "
            "mark schemas, to closure",
            "Every reachable mark set is canonical; add/remove/membership/equality/set_from/allowed_marks agree with "
            "the reference mark algebra on every transition and every list of <= 3 marks.", COMMON_NOTE, "DESIGN.md 5/C14"),
    "C15": ("automaton-product exploration (E3) for fill_before on every reachable match state of every enumerated "
            "expression; exhaustive wrapper search comparison on the zoo and the F-gen schema family",
            "fill_before sound and complete against an exact search on the derivative automaton; find_wrapping sound, "
            "complete and shortest against a reference BFS; create_and_fill sound.", COMMON_NOTE, "DESIGN.md 5/C15"),
    "C19": ("bounded-exhaustive exploration (E1) of all HTML forests up to a node bound over a tag/text vocabulary "
            "(import, parse_slice, five context-restricted rule variants) and of all scope documents (export, "
            "independent re-read with lxml, round trip)",
            "Import terminates without exception and yields reference-valid documents; context rules apply exactly "
            "where the ancestors match; export escapes text/attributes; export->import is the identity on "
            "whitespace-normal documents.", COMMON_NOTE, "DESIGN.md 5/C19"),
    "C20": ("explicit-state exploration (E2) of (document, document after one operation) pairs - sharing sub-trees by "
            "identity - plus all independent pairs of small scopes, each diff call under a watchdog",
            "find_diff_start / find_diff_end terminate and equal the longest common prefix / suffix of the typed "
            "token sequences, incl. astral text.", COMMON_NOTE, "DESIGN.md 5/C20"),
}

NOT_YET = {
}


def main():
    props = [json.loads(line) for line in open(os.path.join(VERIF, "properties.jsonl"))]
    checks = []
    na = []
    for p in props:
        pid = p["id"]
        if pid in CLAIMED:
            tech, text, note, ref = CLAIMED[pid]
            checks.append({
                "property_id": pid,
                "quick_cmd": f"./check {pid} --tier quick",
                "thorough_cmd": f"./check {pid} --tier thorough",
                "evidence_file": f"/verif/evidence/{pid}.json",
                "replay_cmd_template": f"./check {pid} --replay {{path}}",
                "engine": "pmc",
                "level_claimed": {"category": "model_checking", "text": text, "design_ref": ref},
                "level_note": note,
                "technique": tech,
            })
        else:
            na.append({"property_id": pid, "reason": NOT_YET.get(pid, "check not built yet (work in progress; see DESIGN.md section 8)")})
    man = {
        "version": 1,
        "setup_cmd": "/venv/bin/python -m pmc.selftest",
        "hooks": {
            "guard": "FELLOWAPP_PROSEMIRROR_PY_VERIF",
            "enable": "no instrumentation is needed: every observation point is a public method; checks import the "
                      "working tree of /repo directly (PM_REPO overrides the path for mutation runs)",
            "baseline_off_cmd": "cd /repo && /venv/bin/python -m pytest -ra -q -p no:cacheprovider --timeout=900 "
                                "--continue-on-collection-errors",
            "source_commits": [],
            "add_only": True,
        },
        "engines": [{
            "name": "pmc",
            "path": "/verif/pmc",
            "serves_properties": sorted(CLAIMED),
            "kind_free_text": "hand-written explicit-state / bounded-exhaustive model checker for Python values: "
                               "E1 input-space explorer, E2 state-graph BFS over real API calls, E3 automaton-product "
                               "explorer; independent reference models in pmc/ref",
        }],
        "checks": checks,
        "not_applicable": na,
        "notes": "All checks run /venv/bin/python against the current working tree of /repo. KNOWN_FINDINGS.txt lists "
                 "fixed and known defects. VERIF_SEED only rotates which complete extra scope the quick tier adds.",
    }
    with open(os.path.join(VERIF, "MANIFEST.json"), "w") as f:
        json.dump(man, f, indent=1)
    print("claimed", len(checks), "not_applicable", len(na))


if __name__ == "__main__":
    main()
