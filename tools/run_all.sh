#!/bin/bash
# usage: tools/run_all.sh <quick|thorough> [ids...]   - runs the checks one after another, prints a summary line each
tier="${1:-quick}"; shift
ids="$@"
[ -z "$ids" ] && ids="C06 C14 C15 C08 C09 C07 C02 C05 C01 C03 C20 C16 C12 C18 C13 C10 C19 C11 C17 C04"
cd "$(dirname "$0")/.."
for id in $ids; do
  start=$(date +%s)
  out="$(./check $id --tier $tier 2>&1)"; rc=$?
  echo "== $id rc=$rc $(( $(date +%s) - start ))s :: $(echo "$out" | tail -1)"
  echo "$out" | grep -E "^VIOLATION|clause=" | cut -c1-400 | head -12
  echo "$out" | grep -E "^KNOWN-FINDING" | cut -c1-160
done
